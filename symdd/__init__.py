"""symdd: solver-based checking of the real `dd` sources.

The real functions of /repo/dd are executed by CPython on z3-backed proxy
values (`engine`), from an arbitrary valid manager state (`state`); z3 decides
every assertion within the stated bounds; every model is replayed concretely
against the unmodified code (`concrete`, `report`) before it is reported.
See /verif/DESIGN.md.
"""
