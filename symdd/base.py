"""Common harness plumbing: goal discharge, witnesses, dd import, shadowing."""
import importlib
import os
import sys
import time
import warnings

import z3

from . import engine
from .engine import SymInt, SymBool, _z

REPO = os.environ.get('DD_REPO', '/repo')


def import_dd(name='dd.bdd'):
    """Import a module of the real package from the current working tree."""
    if REPO not in sys.path[:1]:
        sys.path.insert(0, REPO)
    sys.dont_write_bytecode = True
    mod = importlib.import_module(name)
    f = os.path.realpath(getattr(mod, '__file__', ''))
    if not f.startswith(os.path.realpath(REPO) + os.sep):
        raise RuntimeError(f'{name} was imported from {f}, not from {REPO}')
    return mod


class Goal:
    """A named proof goal.  kind: 'property' (its failure is a failure of the
    property as stated) or 'aux' (auxiliary fact needed by the induction)."""

    def __init__(self, name, formula, kind='property'):
        self.name, self.formula, self.kind = name, formula, kind


def discharge(goals, extra=(), extract=None):
    """Check `path condition /\\ extra => goal` for each goal.

    Returns a list of dicts {name, kind, status, t, case}.  status is 'unsat'
    (proved), 'sat' (counterexample; case = extract(model)) or 'unknown'.
    """
    c = engine.CTX
    out = []
    extra = list(extra)
    for g in goals:
        t = time.time()
        f = g.formula
        if isinstance(f, bool):
            f = z3.BoolVal(f)
        r = c.check(*(extra + [z3.Not(f)]))
        rec = dict(name=g.name, kind=g.kind, status=str(r),
                   t=round(time.time() - t, 3), case=None)
        if r == z3.sat and extract is not None:
            try:
                rec['case'] = extract(c.solver.model())
            except Exception as e:   # extraction problems are harness errors
                rec['case'] = dict(extract_error=repr(e))
        out.append(rec)
    return out


def witness(extract, extra=()):
    """A model of the path condition as a concrete case (for 7.2)."""
    c = engine.CTX
    r = c.check(*extra)
    if r == z3.unknown:
        raise engine.Inconclusive()
    if r != z3.sat:
        # the assumptions made along the path are unsatisfiable together:
        # whatever was "proved" on it is vacuous -> the path does not count
        raise engine.Abort()
    try:
        return extract(c.solver.model())
    except Exception as e:
        return dict(extract_error=repr(e))


class Shadow:
    """Shadow names in the namespace of a module under analysis."""

    def __init__(self):
        self.saved = []

    def set(self, mod, name, value):
        self.saved.append((mod, name, mod.__dict__.get(name, Shadow)))
        setattr(mod, name, value)

    def restore(self):
        for mod, name, old in reversed(self.saved):
            if old is Shadow:
                try:
                    delattr(mod, name)
                except AttributeError:
                    pass
            else:
                setattr(mod, name, old)
        self.saved = []


class WarnRec:
    """Record warnings (they are observable events, e.g. decref at zero)."""

    def __init__(self):
        self.msgs = []

    def warn(self, msg, *a, **k):
        self.msgs.append(str(msg)[:120])


class NullLogger:
    def __getattr__(self, name):
        def f(*a, **k):
            return None
        return f

    def getEffectiveLevel(self):
        return 30


_real_len = len


def symlen(x):
    """Replacement for `len` in the module under analysis: the size of a
    symbolic node table stays a term instead of being enumerated."""
    f = getattr(x, 'symlen', None)
    if f is not None:
        return SymInt(z3.simplify(f()))
    succ = getattr(x, '_succ', None)
    if succ is not None and hasattr(succ, 'symlen') and hasattr(x, '_pred'):
        return SymInt(z3.simplify(succ.symlen()))
    return _real_len(x)


def std_shadows(sh, B, hdict=None, hset=None):
    """The standard interception for dd.bdd (DESIGN.md 3.3)."""
    from . import hcont
    sh.set(B, 'dict', hdict or hcont.HDict)
    sh.set(B, 'set', hset or hcont.HSet)
    sh.set(B, 'min', engine.symmin)
    sh.set(B, 'max', engine.symmax)
    sh.set(B, 'isinstance', engine.symisinstance)
    sh.set(B, 'logger', NullLogger())
    sh.set(B, 'len', symlen)


def ev_int(model, t):
    return model.eval(t, model_completion=True).as_long()


def ev_bool(model, t):
    return z3.is_true(model.eval(t, model_completion=True))


def make_autoref(A, manager):
    """A `dd.autoref.BDD` wrapper around an existing `dd.bdd.BDD` manager, built the way
    `autoref.BDD.__init__` builds it (so that whatever state the wrapper keeps exists), with
    the inner manager replaced afterwards."""
    abdd = A.BDD.__new__(A.BDD)
    try:
        A.BDD.__init__(abdd)
        inner = abdd.__dict__.get('_bdd')
        if inner is not None and inner is not manager:
            inner.__class__ = type(manager)      # the throw-away inner manager: no shutdown check
    except Exception:
        pass
    abdd._bdd = manager
    abdd.vars = manager.vars
    return abdd
