"""CLI: python -m symdd.check <ID> --tier quick|thorough"""
import argparse
import os
import sys

from . import runner, props


def main():
    ap = argparse.ArgumentParser()
    ap.add_argument('pid')
    ap.add_argument('--tier', default=os.environ.get('VERIF_TIER', 'quick'))
    ap.add_argument('--only', default=None, help='run only jobs whose label contains this')
    a = ap.parse_args()
    seed = int(os.environ.get('VERIF_SEED', '0') or 0)
    rep = runner.Report(a.pid, a.tier, seed)
    known = runner.load_known()
    for job in props.jobs(a.pid, a.tier):
        if a.only and a.only not in job.label:
            continue
        j = runner.run_job(rep, job, known)
        print(f'  job {j["label"]}: paths={j["paths"]} queries={j["queries"]} '
              f'wall={j["wall_s"]}s outcomes={j["outcomes"]}', flush=True)
    code = runner.finish(rep, props.LEVEL_TEXT.get(a.pid, ''))
    sys.exit(code)


if __name__ == '__main__':
    main()
