"""CLI: python -m symdd.check <ID> --tier quick|thorough"""
import argparse
import os
import sys

from . import runner, props


def main():
    ap = argparse.ArgumentParser()
    ap.add_argument('pid')
    ap.add_argument('--tier', default=os.environ.get('VERIF_TIER', 'quick'))
    ap.add_argument('--only', default=None, help='run only jobs whose label contains this')
    a = ap.parse_args()
    import logging
    logging.disable(logging.CRITICAL)
    seed = int(os.environ.get('VERIF_SEED', '0') or 0)
    rep = runner.Report(a.pid, a.tier, seed)
    known = runner.load_known()
    jobs = [j for j in props.jobs(a.pid, a.tier)
            if not (a.only and a.only not in j.label)]
    if not jobs:
        print(f'no jobs for {a.pid}')
        sys.exit(2)
    runner.run_jobs(rep, jobs, known)
    code = runner.finish(rep, props.LEVEL_TEXT.get(a.pid, ''))
    sys.exit(code)


if __name__ == '__main__':
    main()
