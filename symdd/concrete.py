"""Concrete side: independent oracles used to replay models against the real,
unmodified `dd` (no proxies, no stubs, no shadowed names).

Nothing here calls `assert_consistent`, `to_expr`, `pick_iter`, ... from dd:
truth tables are obtained by walking `bdd._succ`, and the invariant is
recomputed from the raw tables.
"""
import importlib
import itertools
import sys


def fresh_dd():
    """Import (or re-use) the real dd modules from /repo's working tree."""
    import dd.bdd as B
    return B


def install(case, B=None, cls=None, _direct=False):
    """Build a real manager whose tables are exactly those of `case`
    (the same way `BDD._load_manager` installs them)."""
    global LAST_PUBLIC
    B = B or fresh_dd()
    if PUBLIC_MODE and not _direct:
        bdd = build_public(case, B, cls)
        if bdd is not None:
            LAST_PUBLIC = True
            return bdd
        LAST_PUBLIC = False
    names = case['names']
    L = case['L']
    if cls is None:
        from .mgr import nodel_class
        cls = nodel_class(B)    # the shutdown assertion is exercised in C08 only
    items = [(nm, i) for i, nm in enumerate(names)]
    if case.get('decl') == 'reversed':
        items.reverse()
    bdd = cls(dict(items))
    succ = {1: (L, None, None)}
    for k, (lv, lo, hi) in case['succ'].items():
        succ[int(k)] = (lv, lo, hi)
    bdd._succ = succ
    bdd._pred = {t: k for k, t in succ.items()}
    if 'ref' in case:
        bdd._ref = {int(k): v for k, v in case['ref'].items()}
    else:
        ref = {k: 0 for k in succ}
        ref[1] = 1
        for k, (lv, lo, hi) in succ.items():
            if lo is not None:
                ref[abs(lo)] += 1
                ref[abs(hi)] += 1
        bdd._ref = ref
    bdd._ite_table = {(g, u, v): r for g, u, v, r in case.get('cache', [])}
    bdd._min_free = case['min_free']
    return bdd


def level_order(bdd):
    """names ordered by level"""
    return [bdd._level_to_var[i] for i in range(len(bdd.vars))]


def tt(bdd, u, succ=None, nlevels=None):
    """Truth table of edge u as an int bitmask: bit a = value under the
    assignment whose i-th bit is the value of the variable at level i."""
    succ = bdd._succ if succ is None else succ
    L = len(bdd.vars) if nlevels is None else nlevels
    out = 0
    for a in range(2 ** L):
        e = u
        neg = False
        guard = 0
        while True:
            if e < 0:
                neg = not neg
                e = -e
            lv, lo, hi = succ[e]
            if lo is None:
                break
            e = hi if (a >> lv) & 1 else lo
            guard += 1
            if guard > 10000:
                raise RuntimeError('cycle')
        if not neg:
            out |= 1 << a
    return out


def tt_named(bdd, u, names):
    """Truth table indexed by `names` (bit j of the assignment index is the
    value of names[j]), independent of the manager's current order."""
    L = len(names)
    lvl = [bdd.vars[n] for n in names]
    base = tt(bdd, u)
    out = 0
    nl = len(bdd.vars)
    for a in range(2 ** L):
        b = 0
        for j in range(L):
            if (a >> j) & 1:
                b |= 1 << lvl[j]
        # other variables (not in names) fixed to 0: callers pass all names
        if (base >> b) & 1:
            out |= 1 << a
    return out


def check_inv(bdd, ext=None, check_cache=True, check_minfree=False):
    """Recompute I1-I7 from the raw tables.  Returns a list of violations
    (strings); `ext` maps node -> external references (ledger) or None to
    skip exactness of counts (only non-negativity and key sets)."""
    bad = []
    succ, pred, ref = bdd._succ, bdd._pred, bdd._ref
    L = len(bdd.vars)
    # I7
    if sorted(bdd.vars.values()) != list(range(L)):
        bad.append(f'I7 vars not a bijection onto 0..{L-1}: {bdd.vars}')
    if {v: k for k, v in bdd.vars.items()} != dict(bdd._level_to_var):
        bad.append(f'I7 _level_to_var is not the inverse of vars: {bdd.vars} {bdd._level_to_var}')
    # I1
    if 1 not in succ or succ[1] != (L, None, None):
        bad.append(f'I1 terminal: {succ.get(1)}')
    indeg = {k: 0 for k in succ}
    seen = {}
    for k, (lv, lo, hi) in succ.items():
        if k == 1:
            continue
        if not isinstance(k, int) or k < 2:
            bad.append(f'I2 bad node number {k}')
        if lo is None or hi is None:
            bad.append(f'I2 node {k} has a None child')
            continue
        if not (0 <= lv < L):
            bad.append(f'I2 node {k} level {lv}')
        if hi <= 0:
            bad.append(f'I2 node {k} complemented high edge {hi}')
        if lo == hi:
            bad.append(f'I2 node {k} redundant (low == high == {lo})')
        for c in (lo, hi):
            if abs(c) not in succ:
                bad.append(f'I2 node {k} child {c} missing')
            else:
                indeg[abs(c)] += 1
                if not succ[abs(c)][0] > lv:
                    bad.append(f'I2 node {k} level {lv} not above child {c} level {succ[abs(c)][0]}')
        if (lv, lo, hi) in seen:
            bad.append(f'I3 duplicate nodes {seen[(lv, lo, hi)]} and {k} for {(lv, lo, hi)}')
        seen[(lv, lo, hi)] = k
        if pred.get((lv, lo, hi)) != k:
            bad.append(f'I3 _pred[{(lv, lo, hi)}] = {pred.get((lv, lo, hi))} != {k}')
    for t, k in pred.items():
        if succ.get(k) != t:
            bad.append(f'I3 stale _pred entry {t} -> {k} (succ: {succ.get(k)})')
    # I4
    if set(ref) != set(succ):
        bad.append(f'I4 keys of _ref {sorted(ref)} != keys of _succ {sorted(succ)}')
    for k in succ:
        if k not in ref:
            continue
        if ref[k] < 0:
            bad.append(f'I4 negative count of node {k}: {ref[k]}')
        if ext is not None:
            want = indeg[k] + ext.get(k, 0)
            if ref[k] != want:
                bad.append(f'I4 count of node {k} is {ref[k]}, in-edges {indeg[k]} + external {ext.get(k, 0)} = {want}')
    # I5
    if check_minfree:
        mf = bdd._min_free
        least = 2
        while least in succ:
            least += 1
        if mf != least:
            bad.append(f'I5 _min_free {mf} != least unused {least}')
    # I6
    if check_cache and not any(b.startswith(('I1', 'I2')) for b in bad):
        for (g, u, v), r in bdd._ite_table.items():
            if any(abs(x) not in succ for x in (g, u, v, r)):
                bad.append(f'I6 cache entry {(g, u, v)} -> {r} names a freed node')
                continue
            tg, tu, tv, tr = (tt(bdd, x) for x in (g, u, v, r))
            if tr != ((tg & tu) | (~tg & tv)) & (2 ** (2 ** L) - 1):
                bad.append(f'I6 cache entry {(g, u, v)} -> {r} is wrong')
    return bad


def ext_of(case):
    return {int(k): v for k, v in case.get('ext', {}).items()}


def snapshot(bdd):
    return dict(succ=dict(bdd._succ), pred=dict(bdd._pred), ref=dict(bdd._ref),
                cache=dict(bdd._ite_table), min_free=bdd._min_free,
                vars=dict(bdd.vars), l2v=dict(bdd._level_to_var))


def mask(L):
    return 2 ** (2 ** L) - 1


def bv_ite(g, a, b, L):
    return ((g & a) | (~g & b)) & mask(L)


def var_tt(i, L):
    m = 0
    for a in range(2 ** L):
        if (a >> i) & 1:
            m |= 1 << a
    return m


def cof_tt(f, i, val, L):
    """cofactor of truth table f at level i"""
    out = 0
    for a in range(2 ** L):
        b = (a | (1 << i)) if val else (a & ~(1 << i))
        if (f >> b) & 1:
            out |= 1 << a
    return out


def quant_tt(f, levels, forall, L):
    for i in levels:
        a, b = cof_tt(f, i, 1, L), cof_tt(f, i, 0, L)
        f = (a & b) if forall else (a | b)
    return f


def depends_tt(f, i, L):
    return cof_tt(f, i, 1, L) != cof_tt(f, i, 0, L)


# ---------------------------------------------------------------------------
# re-creating a state through public calls only (DESIGN.md 7.3, step 3)

PUBLIC_MODE = False          # when set, `install` first tries `build_public`
LAST_PUBLIC = None           # whether the last `install` succeeded that way


def build_public(case, B=None, cls=None):
    """Reach the manager state of `case` with public calls only: declaration
    of the variables, `find_or_add` (with filler nodes to obtain the exact
    node numbers), `incref` / `decref`, rooted `collect_garbage`, `ite` (for
    computed-table entries).  Returns the manager, or None when the exact
    state cannot be obtained this way (then the directly installed state is
    used; it has passed the independent invariant check)."""
    B = B or fresh_dd()
    if cls is None:
        from .mgr import nodel_class
        cls = nodel_class(B)
    names, L = case['names'], case['L']
    items = [(nm, i) for i, nm in enumerate(names)]
    if case.get('decl') == 'reversed':
        items.reverse()
    bdd = cls(dict(items))
    target = {int(k): tuple(v) for k, v in case['succ'].items()}
    ext = {int(k): v for k, v in case.get('ext', {}).items()} if 'ext' in case else None
    tvals = set(target.values())
    done = set()
    order = []
    pending = dict(target)
    while pending:
        progressed = False
        for k, (lv, lo, hi) in sorted(pending.items()):
            if all(abs(c) == 1 or abs(c) in done for c in (lo, hi)):
                order.append(k)
                done.add(k)
                del pending[k]
                progressed = True
        if not progressed:
            return None
    fillers = []

    def filler_only(e):
        return abs(e) == 1 or abs(e) in fillers

    def make_filler():
        cands = [1, -1] + [s * f for f in fillers for s in (1, -1)]
        for lv in range(L - 1, -1, -1):
            for hi in cands:
                if hi < 0 or bdd._succ[abs(hi)][0] <= lv:
                    continue
                for lo in cands:
                    if lo == hi or bdd._succ[abs(lo)][0] <= lv:
                        continue
                    t = (lv, lo, hi)
                    if t in tvals or t in bdd._pred:
                        continue
                    r = bdd.find_or_add(lv, lo, hi)
                    bdd.incref(r)
                    fillers.append(abs(r))
                    return True
        return False

    try:
        for k in order:
            lv, lo, hi = target[k]
            if k in bdd._succ:
                if k not in fillers:
                    return None
                # fillers created after it may point to it: release those first
                idx = fillers.index(k)
                for f in reversed(fillers[idx:]):
                    bdd.decref(f)
                    bdd.collect_garbage([f])
                    if f in bdd._succ:
                        return None
                del fillers[idx:]
            guard = 0
            while bdd._min_free < k:
                guard += 1
                if guard > 50 or not make_filler():
                    return None
            if bdd._min_free != k:
                return None
            r = bdd.find_or_add(lv, lo, hi)
            if r != k:
                return None
            bdd.incref(k)
        for f in reversed(fillers):
            bdd.decref(f)
            bdd.collect_garbage([f])
            if f in bdd._succ:
                return None
        for k in order:
            n = ext.get(k, 0) if ext is not None else 0
            for _ in range(min(n, 10 ** 6)):
                bdd.incref(k)
            bdd.decref(k)
        if ext is not None:
            n1 = ext.get(1, 0)
            if n1 < 1:
                bdd.decref(1)
            for _ in range(min(n1 - 1, 10 ** 6)):
                bdd.incref(1)
        bdd._ite_table = dict()
        for g, u, v, r in case.get('cache', []):
            before = set(bdd._succ)
            if abs(g) == 1:
                return None
            r2 = bdd.ite(g, u, v)
            if r2 != r or set(bdd._succ) != before:
                return None
            if set(bdd._ite_table) != {(g, u, v)} and len(case.get('cache', [])) == 1:
                # sub-results were remembered too: still a state reached by public calls
                pass
    except Exception:
        return None
    ref_case = install(dict(case), B, cls, _direct=True)
    if dict(bdd._succ) != dict(ref_case._succ) or bdd._min_free != ref_case._min_free:
        return None
    if ext is not None and dict(bdd._ref) != dict(ref_case._ref):
        return None
    if ext is None:
        bdd._ref = dict(ref_case._ref)
    return bdd
