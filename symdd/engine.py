"""Proxy-based symbolic execution (fork by re-execution with a decision prefix).

`SymInt` / `SymBool` wrap z3 terms.  `SymBool.__bool__` is the only place where
control flow forks.  A path is identified by its list of decisions (`trace`);
unexplored alternatives are pushed to a work list as prefixes and are replayed
from the start of the harness.  Paths are independent, so the work list is
distributed over processes (`explore`).
"""
import importlib
import multiprocessing as mp
import os
import time
import traceback

import z3


class Abort(BaseException):
    """Path infeasible or pruned (BaseException: `except Exception` in dd
    cannot swallow it)."""


class OutOfBound(BaseException):
    """The path left the stated bounds (e.g. needs more spare node numbers)."""

    def __init__(self, what):
        super().__init__(what)
        self.what = what


class Inconclusive(BaseException):
    """Solver said unknown / timeout on a branch decision."""


QUERY_TIMEOUT_MS = int(os.environ.get('SYMDD_QUERY_TIMEOUT_MS', '120000'))


class Ctx:
    """One per explored path."""

    def __init__(self, prefix=()):
        self.solver = z3.Solver()
        self.solver.set('timeout', QUERY_TIMEOUT_MS)
        self.prefix = list(prefix)
        self.trace = []
        self.work = []
        self.nq = 0
        self.tq = 0.0
        self.fresh_id = 0
        self.events = []      # warnings, stub calls etc. recorded by harnesses
        self.swallowed = []   # exceptions CPython swallowed inside __del__
        self.nbranch = 0

    # -- solver access
    def check(self, *extra):
        t = time.time()
        r = self.solver.check(*extra)
        if r == z3.unknown:
            # the solver's limit is wall-clock time: on a loaded machine a query that needs a few
            # seconds can run out; ask once more with a fresh solver and three times the limit
            # before calling it inconclusive
            s2 = z3.Solver()
            s2.set('timeout', 3 * QUERY_TIMEOUT_MS)
            s2.add(self.solver.assertions())
            r = s2.check(*extra)
            self.solver = s2          # same assertions; models are read from the solver that answered
            self.retries = getattr(self, 'retries', 0) + 1
        self.tq += time.time() - t
        self.nq += 1
        return r

    def assume(self, c):
        self.solver.add(c)

    def fresh_int(self, name):
        self.fresh_id += 1
        return z3.Int(f'{name}!{self.fresh_id}')

    def fresh_bool(self, name):
        self.fresh_id += 1
        return z3.Bool(f'{name}!{self.fresh_id}')

    def fresh_bv(self, name, w):
        self.fresh_id += 1
        return z3.BitVec(f'{name}!{self.fresh_id}', w)

    # -- branching
    def decide(self, cond):
        """cond: z3 Bool.  Return a python bool, forking if both are feasible."""
        cond = z3.simplify(cond)
        if z3.is_true(cond):
            return True
        if z3.is_false(cond):
            return False
        k = len(self.trace)
        if k < len(self.prefix):
            choice = self.prefix[k]
            if not isinstance(choice, bool):
                raise RuntimeError(
                    f'non-deterministic replay: expected bool decision at {k}, got {choice!r}')
        else:
            rt = self.check(cond)
            rf = self.check(z3.Not(cond))
            if rt == z3.unknown or rf == z3.unknown:
                raise Inconclusive()
            can_t = rt == z3.sat
            can_f = rf == z3.sat
            if can_t and can_f:
                choice = True
                self.work.append(self.trace[:k] + [False])
                self.nbranch += 1
            elif can_t:
                choice = True
            elif can_f:
                choice = False
            else:
                raise Abort()
        self.trace.append(choice)
        self.solver.add(cond if choice else z3.Not(cond))
        return choice

    def choose(self, n, label='choose'):
        """Nondeterministic choice of an index in range(n) (explored exhaustively)."""
        if n <= 0:
            raise Abort()
        if n == 1:
            return 0
        k = len(self.trace)
        if k < len(self.prefix):
            tag, val = self.prefix[k]
            if tag != 'ch':
                raise RuntimeError('non-deterministic replay (choose)')
            self.trace.append((tag, val))
            return val
        for alt in range(1, n):
            self.work.append(self.trace[:k] + [('ch', alt)])
        self.nbranch += 1
        self.trace.append(('ch', 0))
        return 0

    def concretize(self, zterm):
        """Pick a value for an Int term; schedule the alternative `!= value`."""
        z = z3.simplify(zterm)
        if z3.is_int_value(z):
            return z.as_long()
        excluded = 0
        while True:
            if excluded > 256:
                # an unbounded quantity is being enumerated (e.g. formatted
                # into a message): outside the bound, never a verdict
                raise OutOfBound('unbounded concretization')
            excluded += 1
            k = len(self.trace)
            if k < len(self.prefix):
                tag, n = self.prefix[k]
                self.trace.append((tag, n))
                if tag == 'eq':
                    self.solver.add(zterm == n)
                    return n
                if tag != 'ne':
                    raise RuntimeError('non-deterministic replay (concretize)')
                self.solver.add(zterm != n)
                continue
            r = self.check()
            if r == z3.unknown:
                raise Inconclusive()
            if r != z3.sat:
                raise Abort()
            n = self.solver.model().eval(zterm, model_completion=True).as_long()
            self.work.append(self.trace[:k] + [('ne', n)])
            self.nbranch += 1
            self.trace.append(('eq', n))
            self.solver.add(zterm == n)
            return n


CTX = None


def ctx():
    return CTX


def _z(x):
    """python value or proxy -> z3 Int term."""
    if isinstance(x, SymInt):
        return x.z
    if isinstance(x, bool):
        return z3.IntVal(int(x))
    if isinstance(x, int):
        return z3.IntVal(x)
    if isinstance(x, SymBool):
        return z3.If(x.z, z3.IntVal(1), z3.IntVal(0))
    raise TypeError(x)


def _zb(x):
    """python value or proxy -> z3 Bool term."""
    if isinstance(x, SymBool):
        return x.z
    if isinstance(x, bool):
        return z3.BoolVal(x)
    if isinstance(x, SymInt):
        return x.z != 0
    if isinstance(x, int):
        return z3.BoolVal(x != 0)
    raise TypeError(x)


class SymBool:
    __slots__ = ('z',)

    def __init__(self, z):
        self.z = z

    def __bool__(self):
        return CTX.decide(self.z)

    def __eq__(self, o):
        try:
            return SymBool(self.z == _zb(o))
        except TypeError:
            return False

    def __ne__(self, o):
        try:
            return SymBool(self.z != _zb(o))
        except TypeError:
            return True

    def __hash__(self):
        return hash(bool(self))

    def __repr__(self):
        return f'SymBool({self.z})'


POW_MAX = 12
FORMAT_CONCRETIZE = False


class SymInt:
    __slots__ = ('z',)

    def __init__(self, z):
        self.z = z

    def _bin(self, o, f):
        try:
            oz = _z(o)
        except TypeError:
            return NotImplemented
        return SymInt(z3.simplify(f(self.z, oz)))

    def __add__(self, o): return self._bin(o, lambda a, b: a + b)
    def __radd__(self, o): return self._bin(o, lambda a, b: b + a)
    def __sub__(self, o): return self._bin(o, lambda a, b: a - b)
    def __rsub__(self, o): return self._bin(o, lambda a, b: b - a)
    def __mul__(self, o):
        if isinstance(o, SymInt):
            return SymProd(self, o)
        return self._bin(o, lambda a, b: a * b)

    def __rmul__(self, o): return self._bin(o, lambda a, b: b * a)
    def __neg__(self): return SymInt(z3.simplify(-self.z))
    def __pos__(self): return self

    def __abs__(self):
        return SymInt(z3.simplify(z3.If(self.z < 0, -self.z, self.z)))

    def __rpow__(self, base):
        """`base ** self` for a small non-negative symbolic exponent."""
        if not isinstance(base, int) or isinstance(base, bool):
            return NotImplemented
        if SymBool(z3.And(self.z >= 0, self.z <= POW_MAX)):
            r = z3.IntVal(base ** POW_MAX)
            for e in range(POW_MAX - 1, -1, -1):
                r = z3.If(self.z == e, z3.IntVal(base ** e), r)
            return SymInt(r)
        return base ** CTX.concretize(self.z)

    def _cmp(self, o, f):
        if o is None:
            return NotImplemented
        try:
            oz = _z(o)
        except TypeError:
            return NotImplemented
        return SymBool(f(self.z, oz))

    def __eq__(self, o):
        r = self._cmp(o, lambda a, b: a == b)
        return False if r is NotImplemented else r

    def __ne__(self, o):
        r = self._cmp(o, lambda a, b: a != b)
        return True if r is NotImplemented else r

    def __lt__(self, o): return self._cmp(o, lambda a, b: a < b)
    def __le__(self, o): return self._cmp(o, lambda a, b: a <= b)
    def __gt__(self, o): return self._cmp(o, lambda a, b: a > b)
    def __ge__(self, o): return self._cmp(o, lambda a, b: a >= b)

    def __bool__(self):
        return CTX.decide(self.z != 0)

    def concretize(self):
        return CTX.concretize(self.z)

    def __index__(self):
        return self.concretize()

    __int__ = __index__

    def __hash__(self):
        return hash(self.concretize())

    def __repr__(self):
        return f'SymInt({self.z})'

    def __str__(self):
        return str(self.concretize())

    def __format__(self, spec):
        # f-strings in log / error messages must not enumerate values (an
        # unbounded term would never finish); harnesses whose subject is
        # formatted output (DOT export) switch this on
        if FORMAT_CONCRETIZE:
            return format(self.concretize(), spec)
        return '<sym>'


class SymProd(SymInt):
    """Product of two symbolic integers.  Comparisons with the constant 0
    (the only use in dd: sign tests such as `p * v <= 0`) are expanded to
    sign logic, which keeps the queries linear."""
    __slots__ = ('fa', 'fb')

    def __init__(self, a, b):
        SymInt.__init__(self, a.z * b.z)
        self.fa, self.fb = a.z, b.z

    def _cmp(self, o, f):
        if isinstance(o, int) and not isinstance(o, bool) and o == 0:
            a, b = self.fa, self.fb
            pos = z3.Or(z3.And(a > 0, b > 0), z3.And(a < 0, b < 0))
            neg = z3.Or(z3.And(a > 0, b < 0), z3.And(a < 0, b > 0))
            zero = z3.Or(a == 0, b == 0)
            # identify the comparison by probing f on constants
            lt = f(z3.IntVal(-1), z3.IntVal(0))
            eq = f(z3.IntVal(0), z3.IntVal(0))
            gt = f(z3.IntVal(1), z3.IntVal(0))
            parts = []
            for flag, cond in ((lt, neg), (eq, zero), (gt, pos)):
                if z3.is_true(z3.simplify(flag)):
                    parts.append(cond)
            return SymBool(z3.Or(parts) if parts else z3.BoolVal(False))
        return SymInt._cmp(self, o, f)


def symmin(*args, **kw):
    """Replacement for `min` in the module under analysis (If-chain, no fork)."""
    if kw:
        return min(*args, **kw)
    if len(args) == 1:
        args = tuple(args[0])
    if not any(isinstance(a, SymInt) for a in args):
        return min(args)
    r = _z(args[0])
    for a in args[1:]:
        az = _z(a)
        r = z3.If(az < r, az, r)
    return SymInt(z3.simplify(r))


def symmax(*args, **kw):
    if kw:
        return max(*args, **kw)
    if len(args) == 1:
        args = tuple(args[0])
    if not any(isinstance(a, SymInt) for a in args):
        return max(args)
    r = _z(args[0])
    for a in args[1:]:
        az = _z(a)
        r = z3.If(az > r, az, r)
    return SymInt(z3.simplify(r))


_real_isinstance = isinstance


def symisinstance(obj, cls):
    """Replacement for `isinstance` in the module under analysis: proxies
    answer like the values they stand for."""
    if _real_isinstance(obj, SymBool):
        if cls is bool or cls is int:
            return True
        if _real_isinstance(cls, tuple) and (bool in cls or int in cls):
            return True
        return False
    if _real_isinstance(obj, SymInt):
        if cls is bool:
            return False
        if cls is int:
            return True
        if _real_isinstance(cls, tuple) and int in cls:
            return True
        return False
    # `dict` / `set` are shadowed by subclasses in the module under
    # analysis: a type test against them means the built-in types
    if _real_isinstance(cls, type):
        cls = _unshadow(cls)
    elif _real_isinstance(cls, tuple):
        cls = tuple(_unshadow(k) for k in cls)
    return _real_isinstance(obj, cls)


def _unshadow(cls):
    if _real_isinstance(cls, type):
        if cls is not dict and issubclass(cls, dict) and cls.__name__.startswith('HDict'):
            return dict
        if cls is not set and issubclass(cls, set) and cls.__name__.startswith('HSet'):
            return set
    return cls


# --------------------------------------------------------------------------
# exploration

def _unraisable(info):
    if CTX is not None:
        CTX.swallowed.append(info.exc_value)


def run_path(harness, prefix):
    """Run one path of `harness` with the decision `prefix`.

    Returns a dict: out (harness result or None), status, work, nq, tq.
    """
    global CTX
    import sys
    sys.unraisablehook = _unraisable
    CTX = Ctx(prefix)
    status = 'ok'
    out = None
    try:
        out = harness.run()
        for e in CTX.swallowed:
            if isinstance(e, (Abort, OutOfBound, Inconclusive)):
                raise e
    except Abort:
        status = 'abort'
    except OutOfBound as e:
        status = 'oob:' + str(e.what)
    except Inconclusive:
        status = 'unknown'
    except z3.Z3Exception as e:
        status = 'error:z3:' + str(e)[:200]
    except RecursionError:
        status = 'error:recursion'
    except Exception:
        status = 'error:' + traceback.format_exc()[-1500:]
    c = CTX
    return dict(out=out, status=status, work=c.work, nq=c.nq, tq=c.tq,
                trace=list(c.trace), nbranch=c.nbranch)


_W_HARNESS = None
_PATHS_SINCE_GC = 0


def _w_init(mod, params):
    global _W_HARNESS
    m = importlib.import_module(mod)
    _W_HARNESS = m.Harness(**params)
    _W_HARNESS.install()


def _w_task(args):
    prefix, budget, tbudget = args
    work = [prefix]
    done = []
    t0 = time.time()
    import gc
    while work and len(done) < budget and (time.time() - t0) < tbudget:
        p = work.pop()
        r = run_path(_W_HARNESS, p)
        global CTX, _PATHS_SINCE_GC
        CTX = None
        _PATHS_SINCE_GC += 1
        if _PATHS_SINCE_GC >= 200:
            _PATHS_SINCE_GC = 0
            gc.collect()
        work.extend(r.pop('work'))
        done.append(r)
    return done, work


def _worker_main(conn, mod, params):
    # no cyclic collection inside z3 calls: a `__del__` of the code under
    # analysis (dd.autoref.Function, dd.bdd.BDD) that runs on proxies in the
    # middle of a solver call re-enters z3 and corrupts it
    import gc
    gc.disable()
    try:
        _w_init(mod, params)
    except BaseException:
        conn.send(('init_error', traceback.format_exc()[-2000:]))
        return
    conn.send(('ready', None))
    while True:
        try:
            msg = conn.recv()
        except EOFError:
            return
        if msg is None:
            return
        try:
            conn.send(('done', _w_task(msg)))
        except BaseException:
            conn.send(('task_error', traceback.format_exc()[-2000:]))


class MiniPool:
    """Worker processes with pipes; no helper threads in the parent (forking
    while multiprocessing.Pool's threads hold locks can deadlock a child)."""

    def __init__(self, procs, mod, params):
        self.ctx = mp.get_context('fork')
        self.mod, self.params = mod, params
        self.workers = {}       # conn -> process
        self.idle = []
        self.busy = {}          # conn -> task
        self.errors = []
        for _ in range(procs):
            self._spawn()

    def _spawn(self):
        pc, cc = self.ctx.Pipe()
        p = self.ctx.Process(target=_worker_main, args=(cc, self.mod, self.params),
                             daemon=True)
        p.start()
        cc.close()
        self.workers[pc] = p
        self.busy[pc] = 'init'

    def submit(self, task):
        conn = self.idle.pop()
        self.busy[conn] = task
        conn.send(task)

    def poll(self):
        """Return the list of finished task results."""
        from multiprocessing.connection import wait
        out = []
        if not self.busy:
            return out
        for conn in wait(list(self.busy), timeout=0.002):
            task = self.busy.pop(conn)
            try:
                kind, payload = conn.recv()
            except (EOFError, OSError):
                kind, payload = 'crash', 'worker died'
            if kind == 'ready':
                self.idle.append(conn)
            elif kind == 'done':
                self.idle.append(conn)
                out.append(payload)
            else:
                self.errors.append((kind, payload, task))
                p = self.workers.pop(conn)
                try:
                    conn.close()
                except OSError:
                    pass
                p.join(timeout=0.1)
                if kind != 'init_error':
                    self._spawn()
                if task != 'init':
                    # report the lost prefix as a failed path
                    out.append(([dict(out=None, status='error:' + kind + ':' + str(payload)[-600:],
                                      nq=0, tq=0.0, trace=[], nbranch=0)], []))
        return out

    def close(self):
        for conn, p in self.workers.items():
            try:
                conn.send(None)
            except (OSError, BrokenPipeError):
                pass
        for conn, p in self.workers.items():
            p.join(timeout=0.2)
            if p.is_alive():
                p.terminate()
            try:
                conn.close()
            except OSError:
                pass
        for p in self.workers.values():
            p.join(timeout=1)
            if p.is_alive():
                p.kill()
        self.workers = {}


class Explorer:
    """Non-blocking exploration of one harness on its own process pool."""

    def __init__(self, mod, params, procs=None, max_paths=None, timeout_s=None):
        self.procs = procs or int(os.environ.get('SYMDD_PROCS', '16'))
        self.max_paths = max_paths
        self.timeout_s = timeout_s
        self.t0 = time.time()
        self.results = []
        self.stats = dict(paths=0, queries=0, solver_s=0.0, branches=0, complete=True)
        self.pool = MiniPool(self.procs, mod, params)
        self.queue = [[]]
        self.stop = False
        self.done = False

    def step(self):
        """Collect finished tasks, submit new ones.  Returns True when done."""
        if self.done:
            return True
        stats = self.stats
        for done, work in self.pool.poll():
            for r in done:
                stats['paths'] += 1
                stats['queries'] += r['nq']
                stats['solver_s'] += r['tq']
                stats['branches'] += r['nbranch']
                self.results.append(r)
            self.queue.extend(work)
        if self.max_paths is not None and stats['paths'] >= self.max_paths:
            self.stop = True
        if self.timeout_s is not None and time.time() - self.t0 > self.timeout_s:
            self.stop = True
        if any(k == 'init_error' for k, _, _ in self.pool.errors):
            self.stop = True
            if not any(r['status'].startswith('error:init') for r in self.results):
                self.results.append(dict(
                    out=None, status='error:init:' + self.pool.errors[0][1][-800:],
                    nq=0, tq=0.0, trace=[], nbranch=0))
        if self.stop:
            if self.queue:
                stats['complete'] = False
        else:
            while self.queue and self.pool.idle:
                big = len(self.queue) > 4 * self.procs
                budget, tb = (32, 4.0) if big else (1, 1.0)
                self.pool.submit((self.queue.pop(), budget, tb))
        nbusy = sum(1 for t in self.pool.busy.values() if t != 'init')
        if nbusy == 0 and (self.stop or not self.queue):
            self.finish()
        return self.done

    def abort(self):
        """Stop now: the remaining work is not needed."""
        if self.done:
            return
        self.stats['complete'] = False
        for p in self.pool.workers.values():
            try:
                p.terminate()
            except Exception:
                pass
        self.finish()

    def finish(self):
        if self.done:
            return
        self.done = True
        self.stats['left'] = len(self.queue)
        self.stats['solver_s'] = round(self.stats['solver_s'], 2)
        self.stats['wall_s'] = round(time.time() - self.t0, 2)
        self.pool.close()


def explore(mod, params, procs=None, max_paths=None, deadline=None):
    """Explore all paths of `mod.Harness(**params)` on `procs` processes.

    Returns (path results, stats).  stats['complete'] is False when the path
    or time budget ran out before the work list was empty.
    """
    ts = None if deadline is None else max(0.0, deadline - time.time())
    ex = Explorer(mod, params, procs, max_paths, ts)
    while not ex.step():
        pass
    return ex.results, ex.stats


def explore_many(specs, concurrent=3, watch=None):
    """specs: list of dicts(mod, params, procs, max_paths, timeout_s).  Runs up
    to `concurrent` explorations at a time (pools are created and driven from
    this thread only).  Yields (index, results, stats) in order of `specs`.
    `watch(index, new_results)` is called with the path results that arrived
    since the last call; when it returns True every exploration is stopped
    (the caller has a confirmed counterexample and does not need the rest)."""
    active = {}
    scanned = {}
    nxt = 0
    out = {}
    emit = 0
    try:
        while emit < len(specs):
            while nxt < len(specs) and len(active) < concurrent:
                sp = specs[nxt]
                active[nxt] = Explorer(sp['mod'], sp['params'], sp.get('procs'),
                                       sp.get('max_paths'), sp.get('timeout_s'))
                nxt += 1
            for i in list(active):
                ex = active[i]
                fin = ex.step()
                if watch is not None:
                    n0 = scanned.get(i, 0)
                    if len(ex.results) > n0:
                        scanned[i] = len(ex.results)
                        if watch(i, ex.results[n0:]):
                            return
                if fin:
                    active.pop(i)
                    out[i] = (ex.results, ex.stats)
            while emit in out:
                r, st = out.pop(emit)
                yield emit, r, st
                emit += 1
    finally:
        for ex in active.values():
            ex.abort()


def explore_seq(harness, max_paths=None):
    """Sequential exploration in this process (debugging, tiny harnesses)."""
    harness.install()
    work = [[]]
    results = []
    stats = dict(paths=0, queries=0, solver_s=0.0, branches=0, complete=True)
    t0 = time.time()
    while work:
        r = run_path(harness, work.pop())
        work.extend(r.pop('work'))
        results.append(r)
        stats['paths'] += 1
        stats['queries'] += r['nq']
        stats['solver_s'] += r['tq']
        stats['branches'] += r['nbranch']
        if max_paths is not None and stats['paths'] >= max_paths:
            stats['complete'] = not work
            break
    stats['left'] = len(work)
    stats['solver_s'] = round(stats['solver_s'], 2)
    stats['wall_s'] = round(time.time() - t0, 2)
    return results, stats
