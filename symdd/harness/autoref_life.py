"""C08: `dd.autoref` handle lifetimes, one step per public method.

Invariant: count(k) = stored in-edges(k) + H(k), H(k) = number of live
`Function` objects pointing to k.  The step is proved from an arbitrary valid
manager with an arbitrary ledger (counts are symbolic), so it composes over
any sequence of method calls and drops: after a method, every node's count
has moved by exactly the number of live handles that were created on it;
after the handles are dropped the counts are back.  The real autoref code
runs (every wrapper, `Function.__init__/__del__`, `_wrap`, the operators);
the underlying dd.bdd computations are contract stubs whose results are
arbitrary present references (the table may grow).  Temporaries created
inside a method die by CPython's own reference counting during the run.
Plus: the real shutdown check `dd.bdd.BDD.__del__` from a state where only
the terminal's own reference is held (mode U)."""
import z3

from .. import engine, base, concrete, hcont
from ..engine import SymInt, SymBool, _z
from ..mgr import SymMgr, nodel_class
from ..stubs import StubWorld, assume_canon_real
from ..state import zabs
from ..base import Goal
from .k6_autoref_ops import make_autoref

FUNCTIONS = ['dd.autoref.Function.__init__', 'dd.autoref.Function.__del__', 'dd.autoref.BDD._wrap',
             'dd.autoref.BDD.var', 'dd.autoref.BDD.ite', 'dd.autoref.BDD.apply', 'dd.autoref.BDD.let',
             'dd.autoref.BDD.quantify', 'dd.autoref.BDD.exist', 'dd.autoref.BDD.forall',
             'dd.autoref.BDD.cube', 'dd.autoref.BDD.add_expr', 'dd.autoref.BDD._add_int',
             'dd.autoref.BDD.find_or_add', 'dd.autoref.BDD.succ', 'dd.autoref.BDD.support',
             'dd.autoref.BDD.count', 'dd.autoref.BDD.to_expr', 'dd.autoref.BDD.copy',
             'dd.autoref.BDD.true', 'dd.autoref.BDD.false', 'dd.autoref.image', 'dd.autoref.preimage',
             'dd.autoref.copy_bdd', 'dd.autoref.Function.low', 'dd.autoref.Function.high',
             'dd.autoref.Function.__invert__', 'dd.autoref.Function.__and__',
             'dd.autoref.Function.__or__', 'dd.autoref.Function.implies', 'dd.autoref.Function.equiv',
             'dd.autoref.Function.__le__', 'dd.autoref.Function.__lt__', 'dd.autoref.Function._apply',
             'dd.autoref.BDD.incref', 'dd.autoref.BDD.decref', 'dd.bdd.BDD.__del__']
STUBS = ['dd.bdd computations under the wrappers (ite, find_or_add, let, quantify, cube, add_expr, copy_bdd, image, preimage) -> results are arbitrary present references']

OPS = ['var', 'true_false', 'ite', 'apply', 'apply_not', 'let_bool', 'let_fn', 'let_name', 'let_empty', 'quantify',
       'exist_forall', 'cube', 'add_expr', 'add_int', 'find_or_add', 'succ', 'low_high', 'operators',
       'comparisons', 'readonly', 'queries', 'image', 'preimage', 'copy_other', 'copy_same', 'del_twice',
       'incref_decref']


class Harness:
    name = 'C08.autoref-lifetimes'
    mode = 'M'

    def __init__(self, N=4, L=2, ops=None):
        self.N, self.L = N, L
        self.ops = ops or OPS

    def install(self):
        self.B = base.import_dd('dd.bdd')
        self.A = base.import_dd('dd.autoref')
        self.sh = base.Shadow()
        base.std_shadows(self.sh, self.B)
        self.wrec = base.WarnRec()
        self.sh.set(self.B, 'warnings', self.wrec)

    def run(self):
        c = engine.CTX
        N, L = self.N, self.L
        A, B = self.A, self.B
        op = self.ops[c.choose(len(self.ops), 'op')]
        self.wrec.msgs = []
        names = [chr(97 + i) for i in range(L)]
        m = SymMgr(N, 0, L, names=names, with_cache=False, with_refs=False)
        m.assume_pre()
        assume_canon_real(m)
        for k in m.ids:
            c.assume(z3.Select(m.st0.RP, k) == z3.Select(m.st0.P, k))
            c.assume(z3.Select(m.st0.RF, k) >= 0)
        bdd = m.install(B)
        world = StubWorld(m)
        world.install(bdd)
        den = m.den
        W = den.W

        def anyref(*a, **k):
            return world._fresh_result('any', c.fresh_bv('anyden', W), 0)
        bdd.let = anyref
        bdd.quantify = anyref
        bdd.cube = anyref
        bdd.add_expr = anyref
        bdd.copy = anyref
        self.sh.set(B, 'image', anyref)
        self.sh.set(B, 'preimage', anyref)
        self.sh.set(B, 'copy_bdd', anyref)
        real_succ = bdd.succ

        def succ(u):
            i, v, w = real_succ(u)
            return (int(i), None if v is None else int(v), None if w is None else int(w))
        bdd.succ = succ
        abdd = make_autoref(A, bdd)
        other = A.BDD()
        other.declare(*names)
        u, v, w = z3.Ints('u v w')
        for x in (u, v, w):
            c.assume(m.present0(x))
        F = A.Function

        def extract(model):
            case = m.extract(model)
            case['args'] = dict(op=op, u=base.ev_int(model, u), v=base.ev_int(model, v),
                                w=base.ev_int(model, w))
            case['harness'] = 'autoref_life'
            return case

        RF0 = m.st0.RF
        exc = None
        held = []
        notes = []
        try:
            fu, fv, fw = F(SymInt(u), abdd), F(SymInt(v), abdd), F(SymInt(w), abdd)
            held += [fu, fv, fw]
            if op == 'var':
                held.append(abdd.var(names[0]))
            elif op == 'true_false':
                held += [abdd.true, abdd.false]
            elif op == 'ite':
                held.append(abdd.ite(fu, fv, fw))
            elif op == 'apply':
                held.append(abdd.apply('and', fu, fv))
                held.append(abdd.apply('ite', fu, fv, fw))
            elif op == 'apply_not':
                held.append(abdd.apply('not', fu))
            elif op == 'let_bool':
                held.append(abdd.let({names[0]: True}, fu))
            elif op == 'let_fn':
                held.append(abdd.let({names[0]: fv}, fu))
            elif op == 'let_name':
                held.append(abdd.let({names[0]: names[1]}, fu))
            elif op == 'let_empty':
                held.append(abdd.let({}, fu))
            elif op == 'quantify':
                held.append(abdd.quantify(fu, {names[0]}, True))
            elif op == 'exist_forall':
                held.append(abdd.exist({names[0]}, fu))
                held.append(abdd.forall({names[1]}, fu))
            elif op == 'cube':
                held.append(abdd.cube({names[0]: True}))
            elif op == 'add_expr':
                held.append(abdd.add_expr('a'))
            elif op == 'add_int':
                held.append(abdd._add_int(SymInt(u)))
            elif op == 'find_or_add':
                c.assume(z3.And(m.lvl0(u) > 0, m.lvl0(v) > 0))
                held.append(abdd.find_or_add(names[0], fu, fv))
            elif op == 'succ':
                i, lo, hi = abdd.succ(fu)
                held += [x for x in (lo, hi) if x is not None]
                notes.append(('succ_none_iff_terminal', (zabs(u) == 1) if lo is None else (zabs(u) != 1)))
            elif op == 'low_high':
                lo, hi = fu.low, fu.high
                held += [x for x in (lo, hi) if x is not None]
                notes.append(('low_none_iff_terminal', (zabs(u) == 1) if lo is None else (zabs(u) != 1)))
            elif op == 'operators':
                held += [~fu, fu & fv, fu | fv, fu.implies(fv), fu.equiv(fv)]
            elif op == 'comparisons':
                bool(fu <= fv)
                bool(fu < fv)
                bool(fu == fv)
                bool(fu != fv)
            elif op == 'readonly':
                abdd.support(fu)
                fu.support
                len(fu)
                fu.dag_size
                fu.negated
                fu.var
                fu.level
                fu.ref
                fu in abdd
                str(abdd)
            elif op == 'queries':
                abdd.count(fu)
                fu.count()
                abdd.pick(fu)
                list(abdd.pick_iter(fu))
                abdd.to_expr(fu)
                fu.to_expr()
                abdd.level_of_var(names[0])
                abdd.var_at_level(0)
                len(abdd)
            elif op == 'image':
                held.append(A.image(fu, fv, {}, set()))
            elif op == 'preimage':
                held.append(A.preimage(fu, fv, {}, set()))
            elif op == 'copy_other':
                r = A.copy_bdd(fu, abdd)       # target = same wrapper type, stubbed copy
                held.append(r)
            elif op == 'copy_same':
                r = abdd.copy(fu, abdd)
                notes.append(('copy_to_same_manager_returns_operand', z3.BoolVal(r is fu)))
            elif op == 'del_twice':
                x = F(SymInt(u), abdd)
                x.__del__()
                x.__del__()
                notes.append(('disposed_handle_has_no_node', z3.BoolVal(x.node is None)))
            elif op == 'incref_decref':
                abdd.incref(fu)
                abdd.decref(fu)
        except Exception as e:
            exc = e
        if exc is not None:
            res = base.discharge([Goal('method_accepts_valid_handles', z3.BoolVal(False))], [], extract)
            return dict(outcome='raised:' + type(exc).__name__, goals=res)
        st = m.st
        uniq = []
        for h in held:
            if not any(h is x for x in uniq):
                uniq.append(h)
        held[:] = uniq
        goals = list(world.obligations)
        goals += [Goal(n, f) for n, f in notes]
        ok_types = all(isinstance(h, F) and h.bdd is abdd and h.manager is bdd for h in held)
        goals.append(Goal('every_result_is_a_Function_of_this_manager', z3.BoolVal(ok_types)))
        ids = [z3.IntVal(k) for k in m.ids] + list(world.ghost_ids)

        def handles_on(a, hs):
            return z3.Sum([z3.If(zabs(_z(h.node)) == a, 1, 0) for h in hs] or [z3.IntVal(0)])

        live = [h for h in held if isinstance(h, F) and h.node is not None]
        goals.append(Goal('counts_moved_by_live_handles', z3.And([
            z3.Implies(world.present(a), z3.Select(st.RF, a) == z3.Select(RF0, a) + handles_on(a, live))
            for a in ids])))
        goals.append(Goal('returned_handles_point_to_present_nodes',
                          z3.And([world.present(_z(h.node)) for h in live] or [z3.BoolVal(True)])))
        goals.append(Goal('no_decref_warning', z3.BoolVal(not self.wrec.msgs)))
        res = base.discharge(goals, [], extract)
        # drop everything that was created
        for h in held:
            if isinstance(h, F):
                h.__del__()
        del held[:]
        fu = fv = fw = None
        goals2 = [Goal('all_dropped_counts_restored', z3.And([
            z3.Implies(world.present(a), z3.Select(m.st.RF, a) == z3.Select(RF0, a)) for a in ids])),
            Goal('no_decref_warning_on_drop', z3.BoolVal(not self.wrec.msgs))]
        res += base.discharge(goals2, [], extract)
        wit = base.witness(extract)
        return dict(outcome='done:' + op, goals=res, witness=wit, expect=dict(outcome='returned'))


# ---------------------------------------------------------------------------

def replay(case):
    """Real autoref on a real manager (no stubs): the counts must follow the
    registry of live handles."""
    import gc
    import warnings
    B = concrete.fresh_dd()
    import dd.autoref as A
    case = dict(case)
    case.pop('ref', None)
    bad0 = concrete.check_inv(concrete.install(case), None)
    if bad0:
        return dict(violates=False, invalid_pre=True, detail=str(bad0[:3]))
    bdd = concrete.install(case, B)
    # hold every node once (a user reference) so that nothing is collected under us
    ext = {k: 1 for k in bdd._succ}
    ext[1] = 2          # the terminal's own reference (from _init_terminal) plus ours
    for k in bdd._succ:
        bdd._ref[k] += 1
    abdd = make_autoref(A, bdd)
    names = case['names']
    a = case['args']
    op = a['op']
    u, v, w = a['u'], a['v'], a['w']
    F = A.Function
    obs = dict(outcome='returned')

    def counts_ok(live):
        reg = dict(ext)
        for h in live:
            if h.node is not None:
                reg[abs(h.node)] = reg.get(abs(h.node), 0) + 1
        return concrete.check_inv(bdd, reg, check_cache=False)

    with warnings.catch_warnings(record=True) as wl:
        warnings.simplefilter('always')
        try:
            fu, fv, fw = F(u, abdd), F(v, abdd), F(w, abdd)
            held = [fu, fv, fw]
            if op == 'var':
                held.append(abdd.var(names[0]))
            elif op == 'true_false':
                held += [abdd.true, abdd.false]
            elif op == 'ite':
                held.append(abdd.ite(fu, fv, fw))
            elif op == 'apply':
                held += [abdd.apply('and', fu, fv), abdd.apply('ite', fu, fv, fw)]
            elif op == 'apply_not':
                held.append(abdd.apply('not', fu))
            elif op == 'let_bool':
                held.append(abdd.let({names[0]: True}, fu))
            elif op == 'let_fn':
                held.append(abdd.let({names[0]: fv}, fu))
            elif op == 'let_name':
                held.append(abdd.let({names[0]: names[1]}, fu))
            elif op == 'let_empty':
                held.append(abdd.let({}, fu))
            elif op == 'quantify':
                held.append(abdd.quantify(fu, {names[0]}, True))
            elif op == 'exist_forall':
                held += [abdd.exist({names[0]}, fu), abdd.forall({names[1]}, fu)]
            elif op == 'cube':
                held.append(abdd.cube({names[0]: True}))
            elif op == 'add_expr':
                held.append(abdd.add_expr('a'))
            elif op == 'add_int':
                held.append(abdd._add_int(u))
            elif op == 'find_or_add':
                if not (bdd._succ[abs(u)][0] > 0 and bdd._succ[abs(v)][0] > 0):
                    return dict(violates=False, skipped='ordering precondition', observed=obs)
                held.append(abdd.find_or_add(names[0], fu, fv))
            elif op == 'succ':
                i, lo, hi = abdd.succ(fu)
                held += [x for x in (lo, hi) if x is not None]
            elif op == 'low_high':
                held += [x for x in (fu.low, fu.high) if x is not None]
            elif op == 'operators':
                held += [~fu, fu & fv, fu | fv, fu.implies(fv), fu.equiv(fv)]
            elif op == 'comparisons':
                fu <= fv
                fu < fv
                fu == fv
                fu != fv
            elif op == 'readonly':
                abdd.support(fu)
                fu.support
                len(fu)
                fu.negated
                fu.var
                fu.ref
            elif op == 'image':
                held.append(A.image(fu, fv, {}, set()))
            elif op == 'preimage':
                held.append(A.preimage(fu, fv, {}, set()))
            elif op == 'copy_other':
                other = A.BDD()
                other.declare(*names)
                r = A.copy_bdd(fu, other)
                del r
            elif op == 'copy_same':
                r = abdd.copy(fu, abdd)
            elif op == 'del_twice':
                x = F(u, abdd)
                x.__del__()
                x.__del__()
            elif op == 'incref_decref':
                abdd.incref(fu)
                abdd.decref(fu)
        except Exception as e:
            return dict(violates=True, key=f'autoref/{op}/raises', detail=f'{op} raised {e!r}',
                        observed=dict(outcome='raised'))
        gc.collect()
        uniq = []
        for h in held:
            if not any(h is x for x in uniq):
                uniq.append(h)
        held = uniq
        for h in held:
            if not isinstance(h, F):
                return dict(violates=True, key=f'autoref/{op}/raw-node-returned',
                            detail=f'{op} returned {h!r}, not a Function', observed=obs)
        bad = counts_ok(held)
        if bad:
            return dict(violates=True, key=f'autoref/{op}/counts-vs-live-handles',
                        detail=f'{op}: ' + '; '.join(bad[:3]), observed=obs)
        for h in held:
            h.__del__()
        bad = counts_ok([])
        if bad:
            return dict(violates=True, key=f'autoref/{op}/counts-after-drop',
                        detail=f'{op}: after dropping all handles: ' + '; '.join(bad[:3]), observed=obs)
    if wl:
        return dict(violates=True, key=f'autoref/{op}/decref-warning', detail=str(wl[0].message)[:200], observed=obs)
    return dict(violates=False, detail='ok', observed=obs)
