"""C11: copying between managers.  Source: an arbitrary valid manager
(read-only, real code).  Target: a second arbitrary valid manager whose
`ite` / `find_or_add` are contract stubs.  The two variable orders are
iterated (every permutation; optionally an extra variable in the target);
operand and both node tables are symbolic.  Variants: `dd.bdd.copy_bdd`,
`BDD.copy`, and `dd._copy.copy_bdd / copy_bdds_from` through the public
`Function` interface of `dd.autoref`."""
import itertools

import z3

from .. import engine, base, concrete, oracle, hcont
from ..engine import SymInt, _z
from ..mgr import SymMgr, nodel_class
from ..state import state_equal
from ..stubs import StubWorld, assume_canon_real
from ..base import Goal
from .k6_autoref_ops import make_autoref

FUNCTIONS = ['dd._copy.copy_vars', 'dd.autoref.copy_vars', 'dd.bdd.copy_bdd', 'dd.bdd._copy_bdd', 'dd.bdd.BDD.copy',
             'dd._copy.copy_bdd', 'dd._copy._copy_bdd', 'dd._copy._flip',
             'dd._copy.copy_bdds_from', 'dd.autoref.BDD.copy', 'dd.autoref.copy_bdd',
             'dd.autoref.Function.low', 'dd.autoref.Function.high',
             'dd.autoref.Function.var', 'dd.autoref.Function.negated']
STUBS = ['target BDD.ite -> contract (K3/K4)', 'target BDD.find_or_add -> contract (K1)']

VARIANTS = ['copy_bdd', 'BDD.copy', '_copy.copy_bdd', '_copy.copy_bdds_from', 'autoref.copy',
            '_copy.copy_vars', 'autoref.copy_vars']


def orders(Ls, extra):
    """target orders: list of perm (source level i -> target level perm[i])"""
    Lt = Ls + extra
    out = []
    for img in itertools.permutations(range(Lt), Ls):
        out.append(list(img))
    return out


class Harness:
    name = 'C11.copy'
    mode = 'M'

    def __init__(self, N=4, L=2, NT=3, extra=0, variants=None):
        self.N, self.L, self.NT, self.extra = N, L, NT, extra
        self.variants = variants or VARIANTS

    def install(self):
        self.B = base.import_dd('dd.bdd')
        self.A = base.import_dd('dd.autoref')
        self.C = base.import_dd('dd._copy')
        self.sh = base.Shadow()
        base.std_shadows(self.sh, self.B)
        A = self.A

        def symint(x, *a):
            if isinstance(x, A.Function):
                return x.node
            return int(x, *a)
        self.sh.set(self.C, 'dict', hcont.HDict)
        self.sh.set(self.C, 'int', symint)

    def run_copy_vars(self, variant, ms, src, names):
        """`copy_vars` reproduces names and levels: fresh target, or one that already declares some
        of the variables at the same levels (bottom-up prefixes, so that each is legal on its own)."""
        c = engine.CTX
        lv = dict(src.vars)
        by_level = sorted(lv, key=lv.get)
        pre = by_level[:c.choose(len(by_level) + 1, 'predeclared')]

        def extract(model):
            return dict(source=ms.extract(model), harness='copy',
                        args=dict(variant=variant, predeclared=pre))
        exc = dst = None
        try:
            dst = _copy_vars_call(variant, self.B, self.A, self.C, src, pre)
        except Exception as e:
            exc = e.with_traceback(None)
        if exc is not None:
            res = base.discharge([Goal('copy_vars_never_raises', z3.BoolVal(False))], [], extract)
            return dict(outcome='raised:' + type(exc).__name__, goals=res)
        res = base.discharge([Goal('names_and_levels_reproduced', z3.BoolVal(_copy_vars_judge(lv, dst))),
                              Goal('source_order_untouched', z3.BoolVal(dict(src.vars) == lv))], [], extract)
        return dict(outcome='returned:' + variant, goals=res, witness=base.witness(extract),
                    expect=dict(outcome='returned'))

    def run(self):
        c = engine.CTX
        N, Ls, NT = self.N, self.L, self.NT
        Lt = Ls + self.extra
        variant = self.variants[c.choose(len(self.variants), 'variant')]
        perms = orders(Ls, self.extra)
        perm = perms[c.choose(len(perms), 'order')]
        names_s = [chr(97 + i) for i in range(Ls)]
        tn = [None] * Lt
        for i, p in enumerate(perm):
            tn[p] = names_s[i]
        for j in range(Lt):
            if tn[j] is None:
                tn[j] = 'extra%d' % j
        ms = SymMgr(N, 0, Ls, names=names_s, with_cache=False, with_refs=False, tag='s')
        mt = SymMgr(NT, 0, Lt, names=tn, with_cache=False, with_refs=False, tag='t')
        ms.decl = 'choose'
        ms.assume_pre()
        mt.assume_pre()
        assume_canon_real(mt)
        assume_canon_real(ms)
        for mm in (ms, mt):
            for k in mm.ids:
                c.assume(z3.Select(mm.st0.RP, k) == z3.Select(mm.st0.P, k))
                c.assume(z3.Select(mm.st0.RF, k) >= 0)
        src = ms.install(self.B)
        if variant.endswith('copy_vars'):
            return self.run_copy_vars(variant, ms, src, names_s)
        dst = mt.install(self.B)
        world = StubWorld(mt)
        world.install(dst)
        u = z3.Int('u')
        c.assume(ms.present0(u))
        u2 = z3.Int('u2')
        c.assume(ms.present0(u2))

        def extract(model):
            case = dict(source=ms.extract(model), target=mt.extract(model))
            case['args'] = dict(variant=variant, perm=perm, u=base.ev_int(model, u),
                                u2=base.ev_int(model, u2))
            case['harness'] = 'copy'
            return case

        exc = None
        results = []
        try:
            if variant == 'copy_bdd':
                results = [(u, self.B.copy_bdd(SymInt(u), src, dst))]
            elif variant == 'BDD.copy':
                results = [(u, src.copy(SymInt(u), dst))]
            else:
                asrc = make_autoref(self.A, src)
                adst = make_autoref(self.A, dst)
                fu = self.A.Function(SymInt(u), asrc)
                if variant == '_copy.copy_bdd':
                    r = self.C.copy_bdd(fu, adst)
                    results = [(u, r.node)]
                elif variant == 'autoref.copy':
                    r = asrc.copy(fu, adst)
                    results = [(u, r.node)]
                else:
                    fu2 = self.A.Function(SymInt(u2), asrc)
                    rs = self.C.copy_bdds_from([fu, fu2], adst)
                    results = [(u, rs[0].node), (u2, rs[1].node)]
        except Exception as e:
            exc = e
        ms.read_post()
        if exc is not None:
            res = base.discharge([Goal('accepts_valid_arguments', z3.BoolVal(False))], [], extract)
            return dict(outcome='raised:' + type(exc).__name__, goals=res)
        goals = list(world.obligations)
        tts = []
        for j, (uu, r) in enumerate(results):
            rz = _z(r)
            want = oracle.bv_embed(ms.den.s(uu), Ls, Lt, perm)
            goals.append(Goal(f'copy_{j}_same_function_by_name',
                              z3.And(world.present(rz), mt.den.s(rz) == want)))
            tts.append(mt.den.s(rz))
        goals.append(Goal('source_untouched', z3.And([
            z3.And(z3.Select(ms.st.P, k) == z3.Select(ms.st0.P, k),
                   z3.Select(ms.st.LV, k) == z3.Select(ms.st0.LV, k),
                   z3.Select(ms.st.LO, k) == z3.Select(ms.st0.LO, k),
                   z3.Select(ms.st.HI, k) == z3.Select(ms.st0.HI, k)) for k in ms.ids])))
        res = base.discharge(goals, [], extract)
        wit = base.witness(extract)
        mdl = c.solver.model()
        expect = dict(outcome='returned',
                      result_tt=[mdl.eval(t, model_completion=True).as_long() for t in tts])
        return dict(outcome='returned:' + variant, goals=res, witness=wit, expect=expect)


def _copy_vars_call(variant, B, A, C, src, predeclared):
    from ..mgr import nodel_class
    dst = nodel_class(B)()
    lv = dict(src.vars)
    for nm in predeclared:
        dst.add_var(nm, lv[nm])
    if variant == '_copy.copy_vars':
        C.copy_vars(src, dst)
    else:
        A.copy_vars(make_autoref(A, src), make_autoref(A, dst))
    return dst


def _copy_vars_judge(src_vars, dst):
    L = len(src_vars)
    ok = (dict(dst.vars) == dict(src_vars) and
          dict(dst._level_to_var) == {l: n for n, l in src_vars.items()} and
          tuple(dst._succ[1]) == (L, None, None) and set(dst._succ) == {1})
    return ok


def replay_copy_vars(case):
    B = concrete.fresh_dd()
    import dd.autoref as A
    import dd._copy as C
    a = case['args']
    src = concrete.install(case['source'], B)
    try:
        dst = _copy_vars_call(a['variant'], B, A, C, src, a['predeclared'])
    except Exception as e:
        return dict(violates=True, key='copy_vars/raises', detail=f'{a["variant"]} with source order '
                    f'{dict(src.vars)} (target already declares {a["predeclared"]}) raised {e!r}',
                    observed=dict(outcome='raised:' + type(e).__name__))
    if not _copy_vars_judge(dict(src.vars), dst):
        return dict(violates=True, key='copy_vars/levels-not-reproduced',
                    detail=f'{a["variant"]}: source {dict(src.vars)}, target {dict(dst.vars)} '
                           f'(level map {dict(dst._level_to_var)}, terminal {dst._succ[1]})',
                    observed=dict(outcome='returned'))
    return dict(violates=False, detail='ok', observed=dict(outcome='returned'))


def replay(case):
    if case['args']['variant'].endswith('copy_vars'):
        return replay_copy_vars(case)
    B = concrete.fresh_dd()
    import dd.autoref as A
    import dd._copy as C
    cs, ct = dict(case['source']), dict(case['target'])
    for cc in (cs, ct):
        cc.pop('ref', None)
    for cc in (cs, ct):
        bad0 = concrete.check_inv(concrete.install(cc), None)
        if bad0:
            return dict(violates=False, invalid_pre=True, detail=str(bad0[:3]))
    src, dst = concrete.install(cs, B), concrete.install(ct, B)
    a = case['args']
    names_s = cs['names']
    variant = a['variant']
    before = concrete.snapshot(src)
    old_t = {k: concrete.tt(dst, k) for k in dst._succ}
    roots = [a['u']] if variant != '_copy.copy_bdds_from' else [a['u'], a['u2']]
    wants = [concrete.tt_named(src, r, names_s) for r in roots]
    exc = None
    out = []
    try:
        if variant == 'copy_bdd':
            out = [B.copy_bdd(a['u'], src, dst)]
        elif variant == 'BDD.copy':
            out = [src.copy(a['u'], dst)]
        else:
            asrc, adst = make_autoref(A, src), make_autoref(A, dst)
            fs = [A.Function(r, asrc) for r in roots]
            if variant == '_copy.copy_bdd':
                out = [C.copy_bdd(fs[0], adst).node]
            elif variant == 'autoref.copy':
                out = [asrc.copy(fs[0], adst).node]
            else:
                out = [f.node for f in C.copy_bdds_from(fs, adst)]
    except Exception as e:
        exc = e
    call = f'{variant}(roots={roots}, target order {dst.vars})'
    obs = dict(outcome='raised:' + type(exc).__name__ if exc else 'returned')
    if exc is not None:
        return dict(violates=True, key='copy/raises', detail=f'{call} raised {exc!r}', observed=obs)
    # by-name comparison over the source's names (extra target variables must not matter)
    Lt = ct['L']
    got_tt = []
    for r, want in zip(out, wants):
        if abs(r) not in dst._succ:
            return dict(violates=True, key='copy/result-absent', detail=call, observed=obs)
        full = concrete.tt(dst, r)
        got_tt.append(full)
        # project: check independence of extra vars and equality by name
        lv = [dst.vars[n] for n in names_s]
        for asg in range(2 ** Lt):
            b = 0
            for j, l in enumerate(lv):
                if (asg >> l) & 1:
                    b |= 1 << j
            if ((full >> asg) & 1) != ((want >> b) & 1):
                return dict(violates=True, key='copy/wrong-function',
                            detail=f'{call} -> {r}: differs from the source function by name', observed=obs)
    obs['result_tt'] = got_tt
    if concrete.snapshot(src) != before and variant in ('copy_bdd', 'BDD.copy'):
        return dict(violates=True, key='copy/source-changed', detail=call, observed=obs)
    for k, t in old_t.items():
        if k not in dst._succ or concrete.tt(dst, k) != t:
            return dict(violates=True, key='copy/target-node-changed', detail=f'{call}: node {k}', observed=obs)
    bad = concrete.check_inv(dst, None)
    if bad:
        return dict(violates=True, key='copy/invariant:' + bad[0].split()[0],
                    detail=f'{call}: ' + '; '.join(bad[:3]), observed=obs)
    return dict(violates=False, detail='ok', observed=obs)
