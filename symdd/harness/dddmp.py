"""C16: `dd.dddmp.load` on symbolic node rows.

The header (a small set of concrete header texts: varinfo 0, 1, 3; with and
without `.orderedvarnames`; permutation ids with gaps) is written to a real
temporary file and parsed by the real `Parser._parse_header` (ply).  The body
parser's text handling (`line.split(' ')`, `int()`) is cut: a harness loop
feeds the real `Parser._add_node` with symbolic rows (node ids: any distinct
numbering with children before parents; then/else children; complement
marks; root ids).  `load` itself runs on the module loaded through the
literal-lifting loader (its `umap = {-1: -1, 1: 1}` display and the parser's
`dict()` must keep symbolic keys); the real `find_or_add` fills an initially
empty manager.  Oracle: the file's own semantics (local equations of the
rows, by variable name)."""
import os
import shutil
import tempfile

import z3

from .. import engine, base, concrete, hcont
from ..engine import SymInt, _z
from ..base import Goal

FUNCTIONS = ['dd.dddmp.load', 'dd.dddmp.Parser.parse', 'dd.dddmp.Parser._parse_header',
             'dd.dddmp.Parser._add_node', 'dd.dddmp.Parser.reset',
             'dd.dddmp.Parser._assert_consistent', 'dd.bdd.BDD.find_or_add']
CUTS = ["Parser._parse_body: `line.split(' ')` / `int()` of the node lines replaced by a loop feeding _add_node with symbolic rows",
        'dict/set displays of dd/dddmp.py lifted to HDict/HSet (validated by concrete replay on the unlifted module with a real file)']

HEAD = """.ver DDDMP-2.0
.mode A
.varinfo {varinfo}
.nnodes {nnodes}
.nvars {nvars}
.nsuppvars 3
{names}.ids {ids}
.permids {permids}
.nroots {nroots}
.rootids {roots}
.nodes
"""

# header variants: info value -> variable name (trusted reading of the DDDMP
# text format), and the expected order of the names (by permutation id, or as
# listed by .orderedvarnames)
HEADERS = {
    'v0': dict(varinfo=0, names='.suppvarnames a b c\n', ids='1 2 3', permids='1 2 3', nvars=50,
               info={1: 'a', 2: 'b', 3: 'c'}, order=['a', 'b', 'c']),
    'v0gap': dict(varinfo=0, names='.suppvarnames a b c\n', ids='2 5 7', permids='4 0 9', nvars=50,
                  info={2: 'a', 5: 'b', 7: 'c'}, order=['b', 'a', 'c']),
    'v1': dict(varinfo=1, names='.suppvarnames a b c\n', ids='1 2 3', permids='6 2 4', nvars=50,
               info={6: 'a', 2: 'b', 4: 'c'}, order=['b', 'c', 'a']),
    'v3': dict(varinfo=3, names='.suppvarnames a b c\n.orderedvarnames c a b\n', ids='0 1 2',
               permids='1 2 0', nvars=3,
               info={'a': 'a', 'b': 'b', 'c': 'c'}, order=['c', 'a', 'b']),
}
ROOTS = {1: [[5], [-5], [-1], [1]], 2: [[5, -4], [-5, 5], [-5, -1], [1, 4]]}


def warm_variant(text):
    """another DDDMP text of the same length (the order lines reversed): written to the same path
    and loaded *before* the file under test, so that anything `load` remembers about a path
    (and not about the file's contents) shows"""
    out = []
    for l in text.splitlines(True):
        if l.startswith('.permids ') or l.startswith('.orderedvarnames '):
            toks = l.rstrip('\n').split(' ')
            l = ' '.join([toks[0]] + toks[1:][::-1]) + '\n'
        out.append(l)
    return ''.join(out)


def header_text(h, nnodes, roots):
    H = HEADERS[h]
    return HEAD.format(varinfo=H['varinfo'], nnodes=nnodes, nvars=H['nvars'], names=H['names'],
                       ids=H['ids'], permids=H['permids'], nroots=len(roots),
                       roots=' '.join(map(str, roots)))


class Harness:
    name = 'C16.dddmp-load'
    mode = 'U'

    def __init__(self, M=2, headers=('v0', 'v0gap', 'v1', 'v3'), nroots=1):
        self.M, self.headers, self.nroots = M, list(headers), nroots

    def install(self):
        real = base.import_dd('dd.dddmp')
        self.D = hcont.load_lifted('dd_dddmp_lifted', real.__file__, register=False,
                                   extra=dict(__name__='dd.dddmp'))
        self.B = self.D._bdd
        self.sh = base.Shadow()
        base.std_shadows(self.sh, self.B)

    def run(self):
        c = engine.CTX
        M = self.M
        h = self.headers[c.choose(len(self.headers), 'header')]
        H = HEADERS[h]
        rsets = ROOTS[self.nroots]
        roots = rsets[c.choose(len(rsets), 'roots')]
        infos_avail = list(H['info'])
        W = 8
        order = H['order']
        bit = {nm: i for i, nm in enumerate(order)}      # canonical index = final level
        VAR = [z3.BitVecVal(sum(1 << a for a in range(W) if (a >> i) & 1), W) for i in range(3)]
        ONES = z3.BitVecVal(255, W)
        ids = [z3.Int(f'id{j}') for j in range(M)]
        thens = [z3.Int(f't{j}') for j in range(M)]
        elses = [z3.Int(f'e{j}') for j in range(M)]
        info = [infos_avail[c.choose(len(infos_avail), 'info')] for j in range(M)]
        lev = [bit[H['info'][x]] for x in info]
        den = []

        def zabs(e):
            return z3.If(e < 0, -e, e)

        def den_of(ref, upto):
            r = ONES
            for k in range(upto):
                r = z3.If(zabs(ref) == ids[k], den[k], r)
            return z3.If(ref < 0, ~r, r)

        def lvl_of(ref, upto):
            r = z3.IntVal(3)
            for k in range(upto):
                r = z3.If(zabs(ref) == ids[k], z3.IntVal(lev[k]), r)
            return r

        for j in range(M):
            c.assume(z3.And(ids[j] >= 2, ids[j] <= M + 4))
            for k in range(j):
                c.assume(ids[j] != ids[k])
            okc = lambda e, j=j: z3.Or([e == 1] + [e == ids[k] for k in range(j)])
            c.assume(okc(thens[j]))
            c.assume(okc(zabs(elses[j])))
            c.assume(thens[j] != elses[j])
            c.assume(z3.And(lvl_of(thens[j], j) > lev[j], lvl_of(elses[j], j) > lev[j]))
            for k in range(j):       # the file describes a reduced diagram
                if lev[k] == lev[j]:
                    c.assume(z3.Not(z3.And(thens[j] == thens[k], elses[j] == elses[k])))
            x = VAR[lev[j]]
            den.append((x & den_of(thens[j], j)) | (~x & den_of(elses[j], j)))
        for r in roots:
            if abs(r) != 1:          # +-1: the constant (the file's terminal row)
                c.assume(z3.Or([ids[j] == abs(r) for j in range(M)]))
        wants = [den_of(z3.IntVal(r), M) for r in roots]

        def extract(model):
            return dict(harness='dddmp', header=h, roots=roots,
                        rows=[[base.ev_int(model, ids[j]), info[j], base.ev_int(model, thens[j]),
                               base.ev_int(model, elses[j])] for j in range(M)])

        d = tempfile.mkdtemp(prefix='symdd_dddmp')
        fn = os.path.join(d, 'f.dddmp')
        D = self.D
        text = header_text(h, M + 1, roots) + '.end\n'
        import os as _os
        if M <= 3 and not _os.environ.get('NOWARM'):
            # an earlier load of another file at the same path
            def warm_body(pself, filename):
                pself._add_node(1, 'T', 1, 0, 0)
                for j in range(M):
                    pself._add_node(5 - j, infos_avail[j % len(infos_avail)], 0, 1, -1)
            with open(fn, 'w') as f:
                f.write(warm_variant(text))
            D.Parser._parse_body = warm_body
            # everything in this load is concrete: it runs in a throw-away context (first branch of
            # every choice; iteration orders of the lifted sets need not be explored here)
            engine.CTX = engine.Ctx()
            BDDc = D._bdd.BDD
            orig_del = BDDc.__dict__.get('__del__')
            BDDc.__del__ = lambda s: None      # its shutdown check must not run later, inside the path proper
            try:
                wb = D.load(fn)
                wb.roots = set()
                del wb
            except Exception:
                pass
            finally:
                if orig_del is not None:
                    BDDc.__del__ = orig_del
                engine.CTX = c
        with open(fn, 'w') as f:
            f.write(text)

        def body(pself, filename):
            pself._add_node(1, 'T', 1, 0, 0)
            for j in range(M):
                pself._add_node(SymInt(ids[j]), info[j], 0, SymInt(thens[j]), SymInt(elses[j]))
        D.Parser._parse_body = body
        exc = bdd = None
        try:
            bdd = D.load(fn)
        except Exception as e:
            exc = e
        finally:
            shutil.rmtree(d, ignore_errors=True)
        if exc is not None:
            res = base.discharge([Goal('well_formed_file_loads', z3.BoolVal(False))], [], extract)
            return dict(outcome='raised:' + type(exc).__name__ + ':' + str(exc)[:200], goals=res)
        # the new manager is concrete on this path (find_or_add returned concrete numbers)
        succ = {}
        for k, t in bdd._succ.items():
            succ[int(k)] = tuple(None if x is None else int(x) for x in t)
        vars_ok = sorted(bdd.vars, key=bdd.vars.get) == order and \
            sorted(bdd.vars.values()) == list(range(len(order)))

        def tt(e):
            class _M:
                pass
            mm = _M()
            mm._succ = succ
            mm.vars = {nm: i for i, nm in enumerate(order)}
            return concrete.tt(mm, e)

        rts = [r if not isinstance(r, SymInt) else r for r in bdd.roots]
        goals = [Goal('order_as_described_by_file', z3.BoolVal(vars_ok))]
        alts_per_root = []
        elems = []
        for e in rts:
            ez = _z(e)
            # each element of roots: a reference of the new manager ...
            pres = z3.Or([zabs(ez) == k for k in succ])
            dterm = z3.BitVecVal(0, W)
            for k in succ:
                for sgn in (1, -1):
                    dterm = z3.If(ez == sgn * k, z3.BitVecVal(tt(sgn * k), W), dterm)
            elems.append((ez, pres, dterm))
        goals.append(Goal('roots_are_references_of_the_new_manager',
                          z3.And([p for _, p, _ in elems] or [z3.BoolVal(False)])))
        goals.append(Goal('every_root_entry_is_represented', z3.And([
            z3.Or([z3.And(p, dt == w) for _, p, dt in elems] or [z3.BoolVal(False)]) for w in wants])))
        goals.append(Goal('every_root_denotes_a_root_entry', z3.And([
            z3.Or([dt == w for w in wants]) for _, p, dt in elems] or [z3.BoolVal(True)])))
        class _B:
            pass
        res = base.discharge(goals, [], extract)
        wit = base.witness(extract)
        return dict(outcome='loaded', goals=res, witness=wit, expect=dict(outcome='returned'))


# ---------------------------------------------------------------------------

def file_text(case):
    h, roots, rows = case['header'], case['roots'], case['rows']
    H = HEADERS[h]
    bitname = H['info']
    lines = ['1 T 1 0 0']
    for u, info, t, e in rows:
        lines.append(f'{u} {info} 0 {t} {e}')
    return header_text(h, len(rows) + 1, roots) + '\n'.join(lines) + '\n.end\n'


def file_semantics(case):
    """truth tables by name (bit i = i-th name of the expected order)"""
    H = HEADERS[case['header']]
    order = H['order']
    bit = {nm: i for i, nm in enumerate(order)}
    den = {1: 255}
    for u, info, t, e in case['rows']:
        nm = H['info'][info] if info in H['info'] else H['info'][int(info)]
        x = concrete.var_tt(bit[nm], 3)
        dt = den[t]
        de = den[abs(e)] if e > 0 else (~den[abs(e)] & 255)
        den[u] = (x & dt) | (~x & de & 255)
    out = []
    for r in case['roots']:
        out.append(den[abs(r)] if r > 0 else (~den[abs(r)] & 255))
    return out, order


def replay(case):
    import dd.dddmp as D
    case = dict(case)
    case['rows'] = [list(r) for r in case['rows']]
    wants, order = file_semantics(case)
    d = tempfile.mkdtemp(prefix='symdd_dddmp')
    fn = os.path.join(d, 'f.dddmp')
    obs = dict(outcome='returned')
    try:
        if len(case['rows']) <= 3:
            with open(fn, 'w') as f:
                f.write(warm_variant(file_text(case)))
            try:
                wb = D.load(fn)
                wb.roots = set()
            except Exception:
                pass
        with open(fn, 'w') as f:
            f.write(file_text(case))
        try:
            bdd = D.load(fn)
        except Exception as e:
            return dict(violates=True, key='dddmp/load-raises',
                        detail=f'load raised {e!r} for\n{file_text(case)}', observed=dict(outcome='raised'))
    finally:
        shutil.rmtree(d, ignore_errors=True)
    text = file_text(case)
    got = []
    for e in bdd.roots:
        if not isinstance(e, int) or abs(e) not in bdd._succ:
            bdd.roots = set()
            return dict(violates=True, key='dddmp/root-not-a-node',
                        detail=f'roots {e} is not a node of the loaded manager; file:\n{text}', observed=obs)
        got.append(concrete.tt_named(bdd, e, order))
    roots = set(bdd.roots)
    bdd.roots = set()
    bad = concrete.check_inv(bdd, None)
    if sorted(bdd.vars, key=bdd.vars.get) != order:
        return dict(violates=True, key='dddmp/order', detail=f'vars {bdd.vars}, file says {order}', observed=obs)
    if bad:
        return dict(violates=True, key='dddmp/invariant:' + bad[0].split()[0], detail='; '.join(bad[:3]), observed=obs)
    if set(got) != set(wants):
        return dict(violates=True, key='dddmp/roots-unmapped',
                    detail=f'roots {sorted(roots)} denote {[hex(g) for g in got]}, the file\'s root entries '
                           f'{case["roots"]} denote {[hex(w) for w in wants]} (names {order}); file:\n{text}',
                    observed=obs)
    return dict(violates=False, detail='ok', observed=obs)
