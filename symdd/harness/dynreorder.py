"""C09: dynamic reordering is invisible.  The *schedule* is the variable: every
node-creation request (each call of the `find_or_add` / `ite` contract stubs
while reordering is enabled) asks the engine "fire here?", so the position k
of the reordering request is explored for all k instead of being whatever the
growth threshold gives.  The real `_try_to_reorder` decorator,
`_ReorderingContext` and every decorated / undecorated entry point run; the
module-level `reorder` is replaced by its contract (C07/C06): afterwards every
node that is not externally referenced, nor a descendant of such a node, may
be gone or its number re-used -- so every reference obtained from a stub
*before* the reordering is stale.  Using a stale reference, letting the
internal signal reach the caller, or ending with reordering disabled are the
failures.

Two reorder contracts: (a) identity permutation (the order itself does not
change; all operations); (b) `permute=True`: after a firing the engine picks
any permutation of the names and the manager state is replaced by a fresh
arbitrary valid state over the new order in which every held node keeps its
number and its function by name (that this is what a real reordering does is
C07).  (b) is what exposes level numbers computed before the reordering and
re-used after it.
"""
import itertools
import types

import z3

from .. import engine, base, concrete, oracle, hcont
from ..engine import SymInt, SymBool, _z
from ..mgr import SymMgr, nodel_class
from ..stubs import StubWorld, assume_canon_real
from ..base import Goal
from .k6_autoref_ops import make_autoref
from .pickle_rt import MemFile, MemPickle

FUNCTIONS = ['dd.bdd._try_to_reorder', 'dd.bdd._ReorderingContext.__enter__',
             'dd.bdd._ReorderingContext.__exit__', 'dd.bdd.BDD.configure',
             'dd.bdd.BDD.ite', 'dd.bdd.BDD.apply', 'dd.bdd.BDD.quantify', 'dd.bdd.BDD.cofactor',
             'dd.bdd.BDD.compose', 'dd.bdd.BDD.rename', 'dd.bdd.BDD.cube', 'dd.bdd.BDD.var',
             'dd.bdd.BDD.add_expr', 'dd.bdd.image', 'dd.bdd.preimage', 'dd.bdd._image',
             'dd.bdd.copy_bdd', 'dd.bdd._copy_bdd', 'dd.bdd.BDD.load', 'dd.bdd.BDD._load',
             'dd.autoref.BDD.find_or_add', 'dd._copy.copy_bdd', 'dd._copy._copy_bdd']
STUBS = ['find_or_add / _ite -> contracts that may raise the reordering request at any call',
         'dd.bdd.reorder -> contract: all references not externally held become stale (identity permutation)']
CUTS = ['undecorated operations: reorder contract instantiated with the identity permutation only']

OPS = ['ite', 'apply_and', 'quantify', 'forall_method', 'apply_forall', 'quantify_kw', 'cofactor', 'cofactor_low', 'compose', 'rename', 'cube', 'var',
       'add_expr', 'image', 'preimage', 'copy_into', 'load', 'autoref_find_or_add',
       '_copy_copy_bdd']


def consts_of(e):
    out = set()
    todo = [e]
    seen = set()
    while todo:
        t = todo.pop()
        if t.get_id() in seen:
            continue
        seen.add(t.get_id())
        if z3.is_const(t) and t.decl().kind() == z3.Z3_OP_UNINTERPRETED:
            out.add(t.decl().name())
        todo.extend(t.children())
    return out


class ReoWorld(StubWorld):
    """contract stubs that can raise the reordering request"""

    def __init__(self, m, B, fires, permute=False, extra_slots=2):
        super().__init__(m)
        self.B = B
        self.permute = permute
        self.G = extra_slots
        self.gen = 0
        self.perm_total = list(range(m.L))      # level of each original level's variable now
        self.den0 = m.den
        self.fires_left = fires
        self.fired_at = []
        self.stale = set()          # names of result constants that are stale
        self.stale_uses = []
        self.reorders = 0
        self.reorder_with_requests_enabled = False
        self.requests = 0
        self.protected = {}         # result constant -> references taken on it (incref - decref)
        self.ctx0 = engine.CTX

    def maybe_fire(self, where):
        bdd = self.bdd
        if bdd._last_len is None:
            return
        self.requests += 1
        if self.fires_left <= 0:
            return
        if engine.CTX.choose(2, 'fire'):
            self.fires_left -= 1
            self.fired_at.append((where, self.requests))
            raise self.B._NeedsReordering()

    def check_fresh(self, what, *operands):
        for x in operands:
            if x is None:
                continue
            bad = consts_of(_z(x)) & self.stale
            if bad:
                self.stale_uses.append(f'{what} uses a reference obtained before the reordering ({sorted(bad)[0]})')

    def foa(self, i, v, w):
        self.maybe_fire('find_or_add')
        self.check_fresh('find_or_add', v, w)
        return super().foa(i, v, w)

    def ite_inner(self, bdd, g, u, v):
        # stands for `_ite`: its find_or_add calls may request reordering
        self.maybe_fire('ite')
        self.check_fresh('ite', g, u, v)
        return StubWorld.ite(self, g, u, v)

    def reorder(self, bdd, order=None):
        self.reorders += 1
        if bdd._last_len is not None:
            self.reorder_with_requests_enabled = True
        # everything handed out so far and not externally referenced is gone
        for r in self.results:
            for cn in consts_of(r):
                if self.protected.get(cn, 0) <= 0:
                    self.stale.add(cn)
        if self.permute:
            self._new_order(bdd)

    def _new_order(self, bdd):
        """contract of a reordering that really changes the order: a fresh
        arbitrary valid state over the new order in which every node that was
        held (all real nodes of this harness, and the protected results) is
        present with the same number and the same function by name"""
        from ..state import State, Den, inv_struct
        c = engine.CTX
        m = self.m
        L = m.L
        perms = list(itertools.permutations(range(L)))
        p = list(perms[c.choose(len(perms), 'new-order')])     # p[i]: new level of the variable at level i
        if p == list(range(L)):
            return
        self.gen += 1
        tag = f'r{self.gen}'
        old, oden = m.st.copy(), m.den
        new, nden = State(tag), Den(L, tag)
        NS = m.N + self.G
        ids = list(range(1, NS + 1))
        for a in inv_struct(new, ids, L, with_pred=False):
            c.assume(a)
        for a in nden.axioms(new, ids):
            c.assume(a)
        W = nden.W
        for k in ids:
            c.assume(z3.Implies(z3.Select(new.P, k), z3.Extract(W - 1, W - 1, z3.Select(nden.D, k)) == 1))
            c.assume(z3.Select(new.RP, k) == z3.Select(new.P, k))
            c.assume(z3.Select(new.RF, k) >= 0)
        for k in range(1, m.N + 1):
            c.assume(z3.Implies(z3.Select(old.P, k), z3.And(
                z3.Select(new.P, k),
                z3.Select(nden.D, k) == oracle.bv_permute(oden, z3.Select(oden.D, k), p))))
        keep = []
        for r in self.results:
            cn = consts_of(r)
            if any(self.protected.get(x, 0) > 0 for x in cn):
                a = z3.If(r < 0, -r, r)
                keep.append(a)
                c.assume(z3.Select(nden.D, a) == oracle.bv_permute(oden, z3.Select(oden.D, a), p))
                c.assume(z3.And(z3.Select(new.LV, a) >= 0, z3.Select(new.LV, a) < L))
                c.assume(z3.Implies(a <= NS, z3.Select(new.P, a)))
        self.ghost_ids = keep
        for fld in State.FIELDS:
            setattr(m.st, fld, getattr(new, fld))
        m.den = nden
        m.N = NS
        m.ids = ids
        m.succ.maxid = NS
        m.ref.maxid = NS
        names_by_level = [bdd._level_to_var[i] for i in range(L)]
        for i, nm in enumerate(names_by_level):
            bdd.vars[nm] = p[i]
            bdd._level_to_var[p[i]] = nm
        self.perm_total = [p[x] for x in self.perm_total]

    def install(self, bdd):
        super().install(bdd)
        deco = self.B._try_to_reorder(self.ite_inner)
        bdd.ite = types.MethodType(lambda b, g, u, v: deco(b, g, u, v), bdd)
        bdd.find_or_add = self.foa
        real_inc, real_dec = bdd.incref, bdd.decref

        def incref(u):
            for cn in consts_of(_z(u)):
                self.protected[cn] = self.protected.get(cn, 0) + 1
            return real_inc(u)

        def decref(u):
            if engine.CTX is None or engine.CTX is not self.ctx0:
                return      # a handle finalised after its path ended
            for cn in consts_of(_z(u)):
                self.protected[cn] = self.protected.get(cn, 0) - 1
            return real_dec(u)
        bdd.incref, bdd.decref = incref, decref
        return bdd


class Harness:
    name = 'C09.dynamic-reordering'
    mode = 'M'

    def __init__(self, N=3, L=2, fires=1, ops=None, permute=False):
        self.N, self.L, self.fires = N, L, fires
        self.ops = ops or OPS
        self.permute = permute

    def install(self):
        self.B = base.import_dd('dd.bdd')
        self.A = base.import_dd('dd.autoref')
        self.C = base.import_dd('dd._copy')
        self.sh = base.Shadow()
        base.std_shadows(self.sh, self.B)
        self.store = {}
        store = self.store
        self.sh.set(self.B, 'open', lambda name, mode='r': MemFile(store, name, mode))
        self.sh.set(self.B, 'pickle', MemPickle(store))
        A = self.A

        def symint(x, *a):
            if isinstance(x, A.Function):
                return x.node
            return int(x, *a)
        self.sh.set(self.C, 'dict', hcont.HDict)
        self.sh.set(self.C, 'int', symint)

    def run(self):
        c = engine.CTX
        N, L = self.N, self.L
        B = self.B
        op = self.ops[c.choose(len(self.ops), 'op')]
        self.store.clear()
        names = [chr(97 + i) for i in range(L)]
        m = SymMgr(N, 0, L, names=names, with_cache=False, with_refs=False, tag='0')
        m.assume_pre()
        assume_canon_real(m)
        for k in m.ids:
            c.assume(z3.Select(m.st0.RP, k) == z3.Select(m.st0.P, k))
            c.assume(z3.Select(m.st0.RF, k) >= 1)       # operands are externally referenced
        # at least one non-terminal node, so that a lowered growth threshold
        # (`_last_len = 1`) makes the real request fire in the replays
        c.assume(z3.Select(m.st0.P, 2))
        bdd = m.install(B)
        world = ReoWorld(m, B, self.fires, permute=self.permute)
        world.install(bdd)
        self.sh.set(B, 'reorder', world.reorder)
        bdd._last_len = 1            # reordering enabled (configure(reordering=True))
        den = m.den
        u, v, w = z3.Ints('u v w')
        for x in (u, v, w):
            c.assume(m.present0(x))
        ms = None
        if op in ('copy_into', 'load', '_copy_copy_bdd'):
            ms = SymMgr(N, 0, L, names=names, with_cache=False, with_refs=False, tag='s')
            ms.assume_pre()
            for k in ms.ids:
                c.assume(z3.Select(ms.st0.RP, k) == z3.Select(ms.st0.P, k))
                c.assume(z3.Select(ms.st0.RF, k) >= 1)
            src = ms.install(B)
            us = z3.Int('us')
            c.assume(ms.present0(us))

        def extract(model):
            case = m.extract(model)
            case['args'] = dict(op=op, u=base.ev_int(model, u), v=base.ev_int(model, v),
                                w=base.ev_int(model, w), fired_at=world.fired_at)
            if ms is not None:
                case['source'] = ms.extract(model)
                case['args']['us'] = base.ev_int(model, us)
            case['harness'] = 'dynreorder'
            return case

        U, V, Wv = SymInt(u), SymInt(v), SymInt(w)
        exc = r = None
        want = None
        try:
            if op == 'ite':
                r = bdd.ite(U, V, Wv)
                want = den.ite(den.s(u), den.s(v), den.s(w))
            elif op == 'apply_and':
                r = bdd.apply('and', U, V)
                want = den.s(u) & den.s(v)
            elif op == 'quantify':
                r = bdd.quantify(U, {names[0]}, False)
                want = oracle.bv_quant(den, den.s(u), [0], False)
            elif op == 'forall_method':
                r = bdd.forall({names[0]}, U)
                want = oracle.bv_quant(den, den.s(u), [0], True)
            elif op == 'quantify_kw':
                r = bdd.quantify(U, {names[1]}, forall=True)
                want = oracle.bv_quant(den, den.s(u), [1], True)
            elif op == 'apply_forall':
                c.assume(v == 2)
                c.assume(z3.And(z3.Select(m.st0.LV, 2) == 0, z3.Select(m.st0.LO, 2) == -1,
                                z3.Select(m.st0.HI, 2) == 1))      # node 2 is the variable a
                r = bdd.apply('forall', V, U)
                want = oracle.bv_quant(den, den.s(u), [0], True)
            elif op == 'cofactor':
                r = bdd.let({names[0]: True}, U)
                want = oracle.bv_cof(den, den.s(u), 0, 1)
            elif op == 'cofactor_low':          # a variable below the top: new nodes can be needed
                r = bdd.let({names[L - 1]: False}, U)
                want = oracle.bv_cof(den, den.s(u), L - 1, 0)
            elif op == 'compose':
                r = bdd.let({names[0]: V}, U)
                want = oracle.bv_subst(den, den.s(u), 0, den.s(v))
            elif op == 'rename':
                r = bdd.let({names[0]: names[1]}, U)
                want = oracle.bv_subst(den, den.s(u), 0, den.var(1))
            elif op == 'cube':
                r = bdd.cube({names[0]: True, names[1]: False})
                want = den.var(0) & ~den.var(1)
            elif op == 'var':
                r = bdd.var(names[1])
                want = den.var(1)
            elif op == 'add_expr':
                r = bdd.add_expr('a /\\ ~ b')
                want = den.var(0) & ~den.var(1)
            elif op == 'image':
                r = B.image(U, V, {}, {names[0]}, bdd)
                want = oracle.bv_quant(den, den.s(u) & den.s(v), [0], False)
            elif op == 'preimage':
                r = B.preimage(U, V, {}, {names[0]}, bdd)
                want = oracle.bv_quant(den, den.s(u) & den.s(v), [0], False)
            elif op == 'copy_into':
                r = B.copy_bdd(SymInt(us), src, bdd)
                want = ms.den.s(us)
            elif op == 'load':
                src.dump('f.p', [SymInt(us)])
                r = bdd.load('f.p')[0]
                want = ms.den.s(us)
            elif op == 'autoref_find_or_add':
                abdd = make_autoref(self.A, bdd)
                c.assume(z3.And(m.lvl0(u) > 0, m.lvl0(v) > 0))
                fl, fh = self.A.Function(U, abdd), self.A.Function(V, abdd)
                r = abdd.find_or_add(names[0], fl, fh).node
                want = den.ite(den.var(0), den.s(v), den.s(u))
            elif op == '_copy_copy_bdd':
                asrc, adst = make_autoref(self.A, src), make_autoref(self.A, bdd)
                fu = self.A.Function(SymInt(us), asrc)
                r = self.C.copy_bdd(fu, adst).node
                want = ms.den.s(us)
        except B._NeedsReordering as e:
            exc = e
        except Exception as e:
            exc = e
        fired = bool(world.fired_at)
        oc = ('fired' if fired else 'quiet') + ':' + op
        goals = []
        if exc is not None:
            escaped = isinstance(exc, B._NeedsReordering)
            goals.append(Goal('reordering_signal_never_reaches_caller', z3.BoolVal(not escaped)))
            if not escaped:
                goals.append(Goal('operation_succeeds_wherever_reordering_fires', z3.BoolVal(False)))
            res = base.discharge(goals, [], extract)
            return dict(outcome=oc + ':raised', goals=res)
        rz = _z(r)
        goals += list(world.obligations)
        goals.append(Goal('no_stale_reference_used', z3.BoolVal(not world.stale_uses)))
        goals.append(Goal('result_is_not_a_stale_reference',
                          z3.BoolVal(not (consts_of(rz) & world.stale))))
        want_now = want if world.perm_total == list(range(L)) else \
            oracle.bv_permute(den, want, world.perm_total)
        goals.append(Goal('same_function_as_without_reordering',
                          z3.And(world.present(rz), m.den.s(rz) == want_now)))
        goals.append(Goal('reordering_still_enabled_afterwards',
                          z3.BoolVal(bdd._last_len is not None and bdd.configure()['reordering'] is True)))
        goals.append(Goal('context_flag_restored', z3.BoolVal(bdd._reordering_context is False)))
        goals.append(Goal('reorder_runs_with_requests_disabled',
                          z3.BoolVal(not world.reorder_with_requests_enabled)))
        goals.append(Goal('fired_request_is_served_by_a_reordering',
                          z3.BoolVal(world.reorders == len(world.fired_at))))
        res = base.discharge(goals, [], extract)
        wit = base.witness(extract)
        return dict(outcome=oc, goals=res, witness=wit, expect=dict(outcome='returned'))


# ---------------------------------------------------------------------------

def _run_real(case, last_len):
    """the real operation on real managers with reordering enabled and the
    threshold lowered to `last_len`"""
    B = concrete.fresh_dd()
    import dd.autoref as A
    import dd._copy as C
    import os
    import shutil
    import tempfile
    a = case['args']
    op = a['op']
    c0 = {k: v for k, v in case.items() if k not in ('source', 'args', 'ref', 'ext')}
    bdd = concrete.install(c0, B)
    names = case['names']
    L = case['L']
    for k in list(bdd._succ):
        bdd._ref[k] += 1                    # operands externally referenced
    src = None
    if 'source' in case:
        cs = {k: v for k, v in case['source'].items() if k not in ('ref', 'ext')}
        src = concrete.install(cs, B)
        for k in list(src._succ):
            src._ref[k] += 1
    held = {k: concrete.tt_named(bdd, k, names) for k in bdd._succ}
    u, v, w = a['u'], a['v'], a['w']
    tt = lambda x: concrete.tt(bdd, x)
    M = concrete.mask(L)
    if op == 'ite':
        want = concrete.bv_ite(tt(u), tt(v), tt(w), L)
    elif op == 'apply_and':
        want = tt(u) & tt(v)
    elif op == 'quantify':
        want = concrete.quant_tt(tt(u), [0], False, L)
    elif op == 'forall_method':
        want = concrete.quant_tt(tt(u), [0], True, L)
    elif op == 'quantify_kw':
        want = concrete.quant_tt(tt(u), [1], True, L)
    elif op == 'apply_forall':
        lv = [i for i in range(L) if concrete.depends_tt(tt(v), i, L)]
        want = concrete.quant_tt(tt(u), lv, True, L)
    elif op == 'cofactor':
        want = concrete.cof_tt(tt(u), 0, 1, L)
    elif op == 'cofactor_low':
        want = concrete.cof_tt(tt(u), L - 1, 0, L)
    elif op in ('compose', 'rename'):
        from .let import int_subst_many
        g = tt(v) if op == 'compose' else concrete.var_tt(1, L)
        want = int_subst_many(tt(u), {0: g}, L)
    elif op in ('cube', 'add_expr'):
        want = concrete.var_tt(0, L) & ~concrete.var_tt(1, L) & M
    elif op == 'var':
        want = concrete.var_tt(1, L)
    elif op in ('image', 'preimage'):
        want = concrete.quant_tt(tt(u) & tt(v), [0], False, L)
    elif op == 'autoref_find_or_add':
        if not (bdd._succ[abs(u)][0] > 0 and bdd._succ[abs(v)][0] > 0):
            return None
        want = concrete.bv_ite(concrete.var_tt(0, L), tt(v), tt(u), L)
    else:
        want = concrete.tt_named(src, a['us'], names)
    bdd.configure(reordering=True)
    bdd._last_len = last_len
    d = tempfile.mkdtemp(prefix='symdd_c09')
    exc = r = None
    try:
        try:
            if op == 'ite':
                r = bdd.ite(u, v, w)
            elif op == 'apply_and':
                r = bdd.apply('and', u, v)
            elif op == 'quantify':
                r = bdd.quantify(u, {names[0]}, False)
            elif op == 'forall_method':
                r = bdd.forall({names[0]}, u)
            elif op == 'quantify_kw':
                r = bdd.quantify(u, {names[1]}, forall=True)
            elif op == 'apply_forall':
                r = bdd.apply('forall', v, u)
            elif op == 'cofactor':
                r = bdd.let({names[0]: True}, u)
            elif op == 'cofactor_low':
                r = bdd.let({names[L - 1]: False}, u)
            elif op == 'compose':
                r = bdd.let({names[0]: v}, u)
            elif op == 'rename':
                r = bdd.let({names[0]: names[1]}, u)
            elif op == 'cube':
                r = bdd.cube({names[0]: True, names[1]: False})
            elif op == 'var':
                r = bdd.var(names[1])
            elif op == 'add_expr':
                r = bdd.add_expr('a /\\ ~ b')
            elif op == 'image':
                r = B.image(u, v, {}, {names[0]}, bdd)
            elif op == 'preimage':
                r = B.preimage(u, v, {}, {names[0]}, bdd)
            elif op == 'copy_into':
                r = B.copy_bdd(a['us'], src, bdd)
            elif op == 'load':
                fn = os.path.join(d, 'f.p')
                src.dump(fn, [a['us']])
                r = bdd.load(fn)[0]
            elif op == 'autoref_find_or_add':
                abdd = make_autoref(A, bdd)
                r = abdd.find_or_add(names[0], A.Function(u, abdd), A.Function(v, abdd)).node
            elif op == '_copy_copy_bdd':
                asrc, adst = make_autoref(A, src), make_autoref(A, bdd)
                r = C.copy_bdd(A.Function(a['us'], asrc), adst).node
        except Exception as e:
            exc = e
    finally:
        shutil.rmtree(d, ignore_errors=True)
    if exc is not None:
        if isinstance(exc, B._NeedsReordering):
            return dict(violates=True, key=f'{op}/reordering-signal-escapes',
                        detail=f'{op} with reordering enabled (_last_len={last_len}): _NeedsReordering reaches the caller')
        return dict(violates=True, key=f'{op}/fails-when-reordering-fires',
                    detail=f'{op} with reordering enabled (_last_len={last_len}) raised {exc!r}')
    if abs(r) not in bdd._succ:
        return dict(violates=True, key=f'{op}/result-collected',
                    detail=f'{op} (_last_len={last_len}) returned {r}, not a node')
    got = concrete.tt_named(bdd, r, names) if op in ('copy_into', 'load', '_copy_copy_bdd') else None
    if got is None:
        # by name: the order may have changed
        lv = [bdd.vars[n] for n in names]
        full = concrete.tt(bdd, r)
        got = 0
        for asg in range(2 ** L):
            b = 0
            for j, l in enumerate(lv):
                if (asg >> j) & 1:
                    b |= 1 << l
            if (full >> b) & 1:
                got |= 1 << asg
    if got != want:
        return dict(violates=True, key=f'{op}/wrong-result-under-reordering',
                    detail=f'{op} (_last_len={last_len}) -> {r} denotes {got:#x}, expected {want:#x}')
    for k, t in held.items():
        if k not in bdd._succ or concrete.tt_named(bdd, k, names) != t:
            return dict(violates=True, key=f'{op}/held-node-affected',
                        detail=f'{op} (_last_len={last_len}): held node {k} changed')
    if bdd.configure()['reordering'] is not True or bdd._reordering_context:
        return dict(violates=True, key=f'{op}/reordering-disabled-afterwards',
                    detail=f'{op} (_last_len={last_len}): configure() = {bdd.configure()}')
    return None


def _amplified(case):
    """Second-stage replay for failures that need the reordering to really
    change the order: the model's small manager is usually already in a
    sifting-optimal order, so the same operation is run on a canned manager on
    which sifting certainly moves variables (f = a1&b1 | a2&b2 | a3&b3 in the
    order a1 a2 a3 b1 b2 b3), with the growth threshold lowered step by step,
    and compared by name with a twin manager without reordering."""
    B = concrete.fresh_dd()
    from ..mgr import nodel_class
    op = case['args']['op']
    names = ['a1', 'a2', 'a3', 'b1', 'b2', 'b3']
    n0, n1 = 'a2', 'b1'            # stand for names[0], names[1] of the model; both move under sifting

    def build():
        bdd = nodel_class(B)({nm: i for i, nm in enumerate(names)})
        f = bdd.add_expr('(a1 /\\ b1) \\/ (a2 /\\ b2) \\/ (a3 /\\ b3)')
        g = bdd.add_expr('(a2 # b1) \\/ a3')
        h = bdd.add_expr('b1 /\\ ~ a2')
        v0 = bdd.var(n0)
        for x in (f, g, h, v0):
            bdd.incref(x)
        return bdd, f, g, h, v0

    def run(bdd, f, g, h, v0):
        if op == 'ite':
            return bdd.ite(g, f, h)
        if op == 'apply_and':
            return bdd.apply('and', f, g)
        if op == 'quantify':
            return bdd.quantify(f, {n0}, False)
        if op == 'forall_method':
            return bdd.forall({n0}, f)
        if op == 'quantify_kw':
            return bdd.quantify(f, {n1}, forall=True)
        if op == 'apply_forall':
            return bdd.apply('forall', v0, f)
        if op == 'cofactor':
            return bdd.let({n0: True}, f)
        if op == 'cofactor_low':
            return bdd.let({'b2': False, 'b3': True}, f)
        if op == 'compose':
            return bdd.let({n0: g}, f)
        if op == 'rename':
            return bdd.let({n0: 'a1'}, h)
        if op == 'cube':
            return bdd.cube({n0: True, n1: False})
        if op == 'var':
            return bdd.var(n1)
        if op == 'add_expr':
            return bdd.add_expr('(a2 /\\ ~ b1) \\/ (a3 /\\ b2)')
        return None

    twin = build()
    want_r = run(*twin)
    if want_r is None:
        return None
    want = concrete.tt_named(twin[0], want_r, names)
    for th in range(1, 40):
        bdd, f, g, h, v0 = build()
        bdd.configure(reordering=True)
        bdd._last_len = th
        order0 = dict(bdd.vars)
        try:
            r = run(bdd, f, g, h, v0)
        except B._NeedsReordering:
            return dict(violates=True, key=f'{op}/reordering-signal-escapes',
                        detail=f'{op} on the canned manager (_last_len={th}): _NeedsReordering reaches the caller')
        except Exception as e:
            return dict(violates=True, key=f'{op}/fails-when-reordering-fires',
                        detail=f'{op} on the canned manager (_last_len={th}) raised {e!r}')
        if dict(bdd.vars) == order0:
            continue
        if abs(r) not in bdd._succ or concrete.tt_named(bdd, r, names) != want:
            return dict(violates=True, key=f'{op}/wrong-result-when-order-changes',
                        detail=f'{op} on f = a1&b1|a2&b2|a3&b3 (order a1 a2 a3 b1 b2 b3, _last_len={th}): '
                               f'reordering to {bdd.vars} fired during the call and the result differs by name '
                               f'from the result without reordering')
    return None


def replay(case):
    c0 = {k: v for k, v in case.items() if k not in ('source', 'args', 'ref', 'ext')}
    bad0 = concrete.check_inv(concrete.install(c0), None)
    if bad0:
        return dict(violates=False, invalid_pre=True, detail=str(bad0[:3]))
    obs = dict(outcome='returned')
    n = len(case['succ']) + 1
    found = []
    for last_len in range(1, n + 4):
        res = _run_real(case, last_len)
        if res is not None:
            res['observed'] = obs
            found.append(res)
    if not found:
        res = _amplified(case)
        if res is not None:
            res['observed'] = obs
            return res
        return dict(violates=False, detail='ok for every threshold tried', observed=obs)
    goal = case.get('goal', '')
    if 'signal' not in goal:
        for res in found:
            if 'signal-escapes' not in res['key']:
                return res
    return found[0]
