"""C13: the real `dd.bdd.image / preimage / _image` (argument mapping,
precondition checks, simultaneous descent) over an arbitrary valid manager;
`ite` / `find_or_add` are contract stubs.  Transition relation and set are
symbolic; the rename pairs, the quantified subset, the quantifier and the
argument style (names / levels) are iterated."""
import itertools

import z3

from .. import engine, base, concrete, oracle
from ..engine import SymInt, _z
from ..mgr import SymMgr
from ..stubs import StubWorld, assume_canon_real
from ..base import Goal
from .let import int_subst_many

FUNCTIONS = ['dd.bdd.image', 'dd.bdd.preimage', 'dd.bdd._image',
             'dd.bdd._assert_valid_rename', 'dd.bdd._all_adjacent', 'dd.bdd._adjacent',
             'dd.bdd._assert_no_overlap', 'dd.bdd.BDD._map_to_level',
             'dd.bdd.BDD._top_cofactor', 'dd.bdd.BDD.support']
STUBS = ['BDD.ite -> contract (K3/K4)', 'BDD.find_or_add -> contract (K1)']


def pairings(L, adjacent_only):
    """rename maps as dicts level->level with keys disjoint from values"""
    out = []
    cand = [(i, j) for i in range(L) for j in range(L) if i != j and
            (abs(i - j) == 1 or not adjacent_only)]
    for k in (1, 2):
        for combo in itertools.combinations(cand, k):
            keys = [a for a, _ in combo]
            vals = [b for _, b in combo]
            if len(set(keys)) < k or len(set(vals)) < k:
                continue        # pairs: every variable has its own partner
            if set(keys) & set(vals):
                continue
            out.append(dict(combo))
    return out


def via_autoref(A, bdd, is_image, t, s, a_ren, a_q, forall):
    """the module-level dd.autoref.image / preimage with Function operands (handles built without
    touching the counts; the returned handle is released without a decref: the harness owns none)"""
    ab = base.make_autoref(A, bdd)

    def mk(u):
        f = A.Function.__new__(A.Function)
        f.node, f.bdd, f.manager = u, ab, bdd
        return f
    ft, fs = mk(t), mk(s)
    # the result may be a node known only by its contract (no count to increment): the handle for it
    # is built like the operands (the real `_wrap` / counts are the subject of K6 and C08)
    ab._wrap = mk
    try:
        out = (A.image if is_image else A.preimage)(ft, fs, a_ren, a_q, forall)
        if not isinstance(out, A.Function) or out.bdd is not ab:
            raise AssertionError('dd.autoref.image/preimage did not return a Function of the manager')
        r = out.node
        out.node = None
        return r
    finally:
        ft.node = fs.node = None


class Harness:
    name = 'C13.image-preimage'
    mode = 'M'

    def __init__(self, N=4, L=2, which=('preimage', 'image', 'image_nonadjacent'),
                 maxpairs=2, styles=('names', 'levels'), minpairs=1, qsets=None, foralls=(0, 1),
                 forward_only=False, warm=False):
        self.N, self.L, self.which, self.maxpairs = N, L, list(which), maxpairs
        self.styles = list(styles)
        self.minpairs, self.qsets, self.foralls = minpairs, qsets, list(foralls)
        self.forward_only = forward_only
        self.warm = warm      # an earlier call with the same arguments and the opposite quantifier kind

    def install(self):
        self.B = base.import_dd('dd.bdd')
        self.sh = base.Shadow()
        base.std_shadows(self.sh, self.B)

    def run(self):
        c = engine.CTX
        N, L = self.N, self.L
        which = self.which[c.choose(len(self.which), 'which')]
        forall = bool(self.foralls[c.choose(len(self.foralls), 'forall')])
        style = self.styles[c.choose(len(self.styles), 'style')]
        maps = [d for d in pairings(L, which != 'image_nonadjacent')
                if self.minpairs <= len(d) <= self.maxpairs]
        if which == 'image_nonadjacent':
            maps = [d for d in maps if any(abs(a - b) != 1 for a, b in d.items())]
        if self.forward_only:
            maps = [d for d in maps if all(b == a + 1 and a % 2 == 0 for a, b in d.items())]
        if not maps:
            raise engine.Abort()
        ren = maps[c.choose(len(maps), 'rename')]
        if self.qsets == 'values':
            subs = [[], sorted(set(ren.values()))]
        else:
            subs = [list(s) for k in range(L + 1) for s in itertools.combinations(range(L), k)]
        qlev = subs[c.choose(len(subs), 'qvars')]
        m = SymMgr(N, 0, L, with_cache=False, with_refs=False)
        m.assume_pre()
        assume_canon_real(m)
        bdd = m.install(self.B)
        world = StubWorld(m)
        world.install(bdd)
        den = m.den
        names = m.names
        t, s = z3.Ints('t s')
        c.assume(m.present0(t))
        c.assume(m.present0(s))
        T, S = den.s(t), den.s(s)
        is_image = which != 'preimage'
        if is_image:
            # documented precondition: every rename target is quantified or
            # absent from the operands
            for tgt in ren.values():
                if tgt not in qlev:
                    c.assume(z3.Not(oracle.bv_depends(den, T, tgt)))
                    c.assume(z3.Not(oracle.bv_depends(den, S, tgt)))
            conj = oracle.bv_quant(den, T & S, qlev, forall)
            want = oracle.bv_subst_many(den, conj, {k: den.var(v) for k, v in ren.items()})
        else:
            # documented precondition ("rename maps (unprimed) variables in
            # `target` to (primed) variables in `trans`"): the target is a set
            # over the unprimed variables, it does not mention the primed ones
            for tgt in ren.values():
                c.assume(z3.Not(oracle.bv_depends(den, S, tgt)))
            renamed = oracle.bv_subst_many(den, S, {k: den.var(v) for k, v in ren.items()})
            want = oracle.bv_quant(den, T & renamed, qlev, forall)
        if style in ('names', 'autoref'):
            a_ren = {names[k]: names[v] for k, v in ren.items()}
            a_q = {names[i] for i in qlev}
        else:
            a_ren = dict(ren)
            a_q = set(qlev)

        def extract(model):
            case = m.extract(model)
            case['args'] = dict(which=which, forall=forall, style=style, warm=self.warm,
                                ren={str(k): v for k, v in ren.items()}, qlev=qlev,
                                t=base.ev_int(model, t), s=base.ev_int(model, s))
            case['harness'] = 'image'
            return case

        f = self.B.image if is_image else self.B.preimage
        exc = r = None
        try:
            if self.warm:
                f(SymInt(t), SymInt(s), a_ren, a_q, bdd, not forall)
            if style == 'autoref':
                r = via_autoref(base.import_dd('dd.autoref'), bdd, is_image, SymInt(t), SymInt(s), a_ren, a_q, forall)
            else:
                r = f(SymInt(t), SymInt(s), a_ren, a_q, bdd, forall)
        except Exception as e:
            exc = e.with_traceback(None)
        if exc is not None:
            res = base.discharge([Goal('accepts_arguments_meeting_precondition',
                                       z3.BoolVal(False))], [], extract)
            return dict(outcome='raised:' + type(exc).__name__, goals=res)
        rz = _z(r)
        goals = list(world.obligations)
        goals.append(Goal(f'{which}_is_relational_product',
                          z3.And(world.present(rz), den.s(rz) == want)))
        res = base.discharge(goals, [], extract)
        wit = base.witness(extract)
        mdl = c.solver.model()
        expect = dict(outcome='returned',
                      result_tt=mdl.eval(den.s(rz), model_completion=True).as_long())
        return dict(outcome='returned:' + which, goals=res, witness=wit, expect=expect)


def replay(case):
    B = concrete.fresh_dd()
    L = case['L']
    case = dict(case)
    case.pop('ref', None)
    bad0 = concrete.check_inv(concrete.install(case), None)
    if bad0:
        return dict(violates=False, invalid_pre=True, detail=str(bad0[:3]))
    bdd = concrete.install(case, B)
    a = case['args']
    names = case['names']
    ren = {int(k): v for k, v in a['ren'].items()}
    qlev, forall, which = a['qlev'], a['forall'], a['which']
    T, S = concrete.tt(bdd, a['t']), concrete.tt(bdd, a['s'])
    is_image = which != 'preimage'
    sub = {k: concrete.var_tt(v, L) for k, v in ren.items()}
    if is_image:
        for tgt in ren.values():
            if tgt not in qlev and (concrete.depends_tt(T, tgt, L) or concrete.depends_tt(S, tgt, L)):
                return dict(violates=False, skipped='precondition of image not met', observed={})
        want = int_subst_many(concrete.quant_tt(T & S, qlev, forall, L), sub, L)
    else:
        for tgt in ren.values():
            if concrete.depends_tt(S, tgt, L):
                return dict(violates=False, skipped='precondition of preimage not met '
                            '(target mentions a primed variable)', observed={})
        want = concrete.quant_tt(T & int_subst_many(S, sub, L), qlev, forall, L)
    if a['style'] in ('names', 'autoref'):
        a_ren = {names[k]: names[v] for k, v in ren.items()}
        a_q = {names[i] for i in qlev}
    else:
        a_ren, a_q = dict(ren), set(qlev)
    f = B.image if is_image else B.preimage
    old = {k: concrete.tt(bdd, k) for k in bdd._succ}
    exc = r = None
    try:
        if a.get('warm'):
            f(a['t'], a['s'], a_ren, a_q, bdd, not forall)
        if a['style'] == 'autoref':
            import dd.autoref as A
            r = via_autoref(A, bdd, is_image, a['t'], a['s'], a_ren, a_q, forall)
        else:
            r = f(a['t'], a['s'], a_ren, a_q, bdd, forall)
    except Exception as e:
        exc = e
    call = f'{"image" if is_image else "preimage"}({a["t"]}, {a["s"]}, {a_ren}, {sorted(a_q, key=str)}, forall={forall})'
    obs = dict(outcome='raised:' + type(exc).__name__ if exc else 'returned', result=r)
    if exc is not None:
        return dict(violates=True, key='image/raises', detail=f'{call} raised {exc!r}', observed=obs)
    if abs(r) not in bdd._succ:
        return dict(violates=True, key='image/result-absent', detail=call, observed=obs)
    got = concrete.tt(bdd, r)
    obs['result_tt'] = got
    if got != want:
        return dict(violates=True, key='image/wrong-function',
                    detail=f'{call} -> {r} denotes {got:#x}, expected {want:#x} (trans {T:#x}, set {S:#x})',
                    observed=obs)
    for k, tk in old.items():
        if k not in bdd._succ or concrete.tt(bdd, k) != tk:
            return dict(violates=True, key='image/old-node-changed', detail=f'{call}: node {k}', observed=obs)
    bad = concrete.check_inv(bdd, None)
    if bad:
        return dict(violates=True, key='image/invariant:' + bad[0].split()[0],
                    detail=f'{call}: ' + '; '.join(bad[:3]), observed=obs)
    return dict(violates=False, detail='ok', observed=obs)
