"""C12 (JSON): the real `dd._copy.dump_json / _dump_json / _dump_bdd_info /
_dump_bdd / _node_to_int / _flip` and `load_json / _load_json / _parse_line /
_store_line / _make_node / _decode_node / _node_from_int`, reached through
`dd.autoref.BDD.dump(..json)` and `dd.autoref.BDD.load(..json)` (and
`_copy.load_json(.., load_order=True)`).

Source: an arbitrary valid manager (symbolic).  The dump walks it through
`Function.low/high/level/negated`; node numbers and levels are written into
the JSON text, so each number that reaches the text is fixed by the solver at
that point (`concretize`: one path per feasible value, all values covered).
The text is therefore concrete per path while the *set of paths* covers every
source state within the bound.  The file system and `shelve` are cut out
(`open` -> in-memory text, `_open_shelf` -> a dict); the JSON text itself is
produced and parsed by the real `json` module.

Receiving manager: a fresh manager, or one that already declares the
variables in another order (filled by the real code)."""
import contextlib
import io
import itertools
import types

import z3

from .. import engine, base, concrete, oracle
from ..engine import SymInt, _z
from ..mgr import SymMgr, nodel_class
from ..stubs import assume_canon_real
from ..base import Goal
from .k6_autoref_ops import make_autoref

FUNCTIONS = ['dd._copy.dump_json', 'dd._copy._dump_json', 'dd._copy._dump_bdd_info', 'dd._copy._dump_bdd',
             'dd._copy._node_to_int', 'dd._copy._flip', 'dd._copy.load_json', 'dd._copy._load_json',
             'dd._copy._parse_line', 'dd._copy._store_line', 'dd._copy._make_node', 'dd._copy._decode_node',
             'dd._copy._node_from_int', 'dd.autoref.BDD.dump', 'dd.autoref.BDD.load',
             'dd.autoref.BDD._add_int', 'dd.bdd.BDD._add_int', 'dd.autoref.Function.low',
             'dd.autoref.Function.high', 'dd.autoref.Function.level', 'dd.autoref.Function.negated',
             'dd.autoref.Function.ref', 'dd._utils._map_container', 'dd._utils._values_of']
STUBS = ['open in dd._copy -> in-memory text file', 'dd._copy._open_shelf -> a dict (the visited-node memo)',
         'os.makedirs / shutil.rmtree in dd._copy -> no-ops']
CUTS = ['on-disk file and shelve storage']

VARIANTS = ['fresh_list', 'fresh_dict', 'fresh_order', 'other_order', 'other_order_load_order', 'same']


class MemText(io.StringIO):
    def __init__(self, store, name, mode):
        self.store, self.name_, self.mode_ = store, name, mode
        if 'r' in mode:
            if name not in store:
                raise FileNotFoundError(name)
            io.StringIO.__init__(self, store[name])
        else:
            io.StringIO.__init__(self)

    def __exit__(self, *a):
        if 'w' in self.mode_:
            self.store[self.name_] = self.getvalue()
        return io.StringIO.__exit__(self, *a)


def symint(x=0, *a):
    if isinstance(x, SymInt):
        return x.concretize()
    if hasattr(x, 'node') and isinstance(getattr(x, 'node'), SymInt):
        return x.node.concretize()
    return int(x, *a)


@contextlib.contextmanager
def mem_shelf(name):
    yield {}


class Harness:
    name = 'C12.json-roundtrip'
    mode = 'U'

    def __init__(self, N=3, L=2, variants=None):
        self.N, self.L = N, L
        self.variants = variants or VARIANTS

    def install(self):
        self.B = base.import_dd('dd.bdd')
        self.A = base.import_dd('dd.autoref')
        self.C = base.import_dd('dd._copy')
        self.sh = base.Shadow()
        base.std_shadows(self.sh, self.B)
        self.store = {}
        store = self.store
        self.sh.set(self.C, 'open', lambda name, mode='r': MemText(store, name, mode))
        self.sh.set(self.C, '_open_shelf', mem_shelf)
        self.sh.set(self.C, 'int', symint)
        self.sh.set(self.C, 'os', types.SimpleNamespace(
            path=types.SimpleNamespace(join=lambda *a: '/'.join(a)), makedirs=lambda *a, **k: None))
        self.sh.set(self.C, 'shutil', types.SimpleNamespace(rmtree=lambda *a, **k: None))
        engine.FORMAT_CONCRETIZE = True

    def run_same(self, names):
        """dump, then load into the *same* manager (symbolic, with the ledger of external
        references): by canonicity the loaded roots are the dumped references themselves; the manager
        stays canonical and its counts grow by exactly the returned handles."""
        c = engine.CTX
        N, L = self.N, self.L
        A = self.A
        ms = SymMgr(N, 2, L, names=names, with_cache=True, cache_model='assoc', cache_entries=1, tag='s')
        ms.decl = 'choose'
        ms.assume_pre()
        src = ms.install(self.B)
        src.assert_consistent = lambda *a, **k: True      # debugging walk over the table; INV is a goal
        asrc = make_autoref(A, src)
        u1, u2 = z3.Ints('u1 u2')
        c.assume(ms.present0(u1))
        c.assume(ms.present0(u2))
        # the two dumped handles are live: their references are part of the ledger
        c.assume(z3.Select(ms.ext, z3.If(u1 < 0, -u1, u1)) > 0)
        c.assume(z3.Select(ms.ext, z3.If(u2 < 0, -u2, u2)) > 0)
        c.assume(z3.Implies(z3.If(u1 < 0, -u1, u1) == z3.If(u2 < 0, -u2, u2),
                            z3.Select(ms.ext, z3.If(u1 < 0, -u1, u1)) > 1))
        c.assume(z3.Select(ms.ext, 1) >= 1)

        def mk(u):
            f = A.Function.__new__(A.Function)
            f.node, f.bdd, f.manager = SymInt(u), asrc, src
            return f
        f1, f2 = mk(u1), mk(u2)

        def extract(model):
            case = ms.extract(model)
            case['args'] = dict(variant='same', perm=list(range(L)), u1=base.ev_int(model, u1),
                                u2=base.ev_int(model, u2))
            case['harness'] = 'json_rt'
            return case
        exc = out = None
        try:
            asrc.dump('f.json', [f1, f2])
            out = asrc.load('f.json')
        except Exception as e:
            exc = e.with_traceback(None)
        f1.node = f2.node = None
        ms.read_post()
        if exc is not None:
            res = base.discharge([Goal('load_never_raises_for_own_dump', z3.BoolVal(False))], [], extract)
            return dict(outcome='raised:' + type(exc).__name__ + ':' + str(exc)[:60], goals=res)
        ok_shape = isinstance(out, list) and len(out) == 2 and all(
            isinstance(x, A.Function) and x.bdd is asrc for x in out)
        goals = [Goal('same_container_shape', z3.BoolVal(ok_shape))]
        ext2 = ms.ext
        if ok_shape:
            for j, (uu, h) in enumerate(zip([u1, u2], out)):
                rz = _z(h.node)
                goals.append(Goal(f'root_{j}_is_the_dumped_reference', rz == uu))
                a = z3.If(rz < 0, -rz, rz)
                ext2 = z3.Store(ext2, a, z3.Select(ext2, a) + 1)
        goals += [Goal('reduced_ordered', ms.g_inv_struct()),
                  Goal('unique_table_sound', ms.g_pred_sound()),
                  Goal('counts_exact_ledger_plus_returned_handles', ms.g_refs(ext=ext2)),
                  Goal('old_nodes_unchanged', z3.And([z3.Implies(z3.Select(ms.st0.P, k), z3.And(
                      z3.Select(ms.st.P, k), z3.Select(ms.st.LV, k) == z3.Select(ms.st0.LV, k),
                      z3.Select(ms.st.LO, k) == z3.Select(ms.st0.LO, k),
                      z3.Select(ms.st.HI, k) == z3.Select(ms.st0.HI, k))) for k in ms.ids[1:]])),
                  Goal('order_unchanged', z3.BoolVal(dict(src.vars) == {nm: i for i, nm in enumerate(names)}))]
        res = base.discharge(goals, [], extract)
        wit = base.witness(extract)
        if ok_shape:
            for h in out:
                h.node = None            # the path is over: no decref into the dead tables
        return dict(outcome='loaded:same', goals=res, witness=wit, expect=dict(outcome='returned'))

    def run(self):
        c = engine.CTX
        N, L = self.N, self.L
        variant = self.variants[c.choose(len(self.variants), 'variant')]
        self.store.clear()
        names = [chr(97 + i) for i in range(L)]
        if variant == 'same':
            return self.run_same(names)
        ms = SymMgr(N, 0, L, names=names, with_cache=False, with_refs=False, tag='s')
        ms.decl = 'choose'
        ms.assume_pre()
        assume_canon_real(ms)
        for k in ms.ids:
            c.assume(z3.Select(ms.st0.RP, k) == z3.Select(ms.st0.P, k))
            c.assume(z3.Select(ms.st0.RF, k) >= 0)
        src = ms.install(self.B)
        u1, u2 = z3.Ints('u1 u2')
        c.assume(ms.present0(u1))
        c.assume(ms.present0(u2))
        perm = list(range(L))

        def extract(model):
            return dict(source=ms.extract(model), harness='json_rt',
                        args=dict(variant=variant, perm=perm, u1=base.ev_int(model, u1),
                                  u2=base.ev_int(model, u2)))

        dst = nodel_class(self.B)()
        if variant.startswith('other'):
            perms = [p for p in itertools.permutations(range(L)) if list(p) != list(range(L))]
            if not perms:
                raise engine.Abort()
            perm = list(perms[c.choose(len(perms), 'order')])
            tn = [None] * L
            for i, p in enumerate(perm):
                tn[p] = names[i]
            dst.declare(*tn)
        load_order = variant in ('fresh_order', 'other_order_load_order')
        asrc, adst = make_autoref(self.A, src), make_autoref(self.A, dst)
        f1, f2 = self.A.Function(SymInt(u1), asrc), self.A.Function(SymInt(u2), asrc)
        roots = dict(f=f1, g=f2) if variant == 'fresh_dict' else [f1, f2]
        exc = out = None
        try:
            asrc.dump('f.json', roots)
            if load_order:
                out = self.C.load_json('f.json', adst, load_order=True)
            else:
                out = adst.load('f.json')
        except Exception as e:
            exc = e.with_traceback(None)
        if exc is not None:
            res = base.discharge([Goal('load_never_raises_for_own_dump', z3.BoolVal(False))], [], extract)
            return dict(outcome='raised:' + type(exc).__name__, goals=res)
        goals = []
        vals = list(out.values()) if isinstance(out, dict) else list(out)
        ok_wrapped = all(isinstance(x, self.A.Function) and x.bdd is adst for x in vals)
        goals.append(Goal('loaded_roots_are_Functions_of_the_receiving_manager', z3.BoolVal(ok_wrapped)))
        if variant == 'fresh_dict':
            goals.append(Goal('same_container_shape',
                              z3.BoolVal(isinstance(out, dict) and sorted(out) == ['f', 'g'])))
            got = [out.get('f'), out.get('g')]
        else:
            goals.append(Goal('same_container_shape', z3.BoolVal(isinstance(out, list) and len(out) == 2)))
            got = list(out)
        succ = {int(k): tuple(None if x is None else int(x) for x in t) for k, t in dst._succ.items()}

        class _M:
            pass
        mm = _M()
        mm._succ = succ
        mm.vars = dict(dst.vars)
        # without load_order the loader promises the functions by name, not the levels
        if load_order:
            want_order = {nm: i for i, nm in enumerate(names)}
            goals.append(Goal('load_order_restores_the_dumped_order', z3.BoolVal(dict(dst.vars) == want_order)))
        goals.append(Goal('receiving_order_is_a_bijection',
                          z3.BoolVal(sorted(dst.vars.values()) == list(range(L)) and set(dst.vars) == set(names))))
        eff = [dst.vars[names[i]] for i in range(L)]       # source level i -> receiving level
        for j, (uu, h) in enumerate(zip([u1, u2], got)):
            r = int(h.node)
            want = oracle.bv_embed(ms.den.s(uu), L, L, eff)
            goals.append(Goal(f'root_{j}_denotes_dumped_function',
                              want == z3.BitVecVal(concrete.tt(mm, r), ms.den.W)))
        ref = {int(k): int(v) for k, v in dst._ref.items()}
        fake = _M()
        fake._succ, fake._ref, fake.vars = succ, ref, dict(dst.vars)
        fake._pred = {t: k for k, t in succ.items()}
        fake._level_to_var = dict(dst._level_to_var)
        fake._ite_table = {}
        fake._min_free = 0
        held = {1: 1}
        for h in got:
            held[abs(int(h.node))] = held.get(abs(int(h.node)), 0) + 1
        bad = concrete.check_inv(fake, held, check_cache=False)
        goals.append(Goal('receiving_manager_canonical_counts_exact', z3.BoolVal(not bad)))
        res = base.discharge(goals, [], extract)
        wit = base.witness(extract)
        return dict(outcome='loaded:' + variant, goals=res, witness=wit, expect=dict(outcome='returned'))


def replay_same(case):
    import os
    import shutil
    import tempfile
    B = concrete.fresh_dd()
    import dd.autoref as A
    ext = concrete.ext_of(case)
    bad0 = concrete.check_inv(concrete.install(case), ext)
    if bad0:
        return dict(violates=False, invalid_pre=True, detail=str(bad0[:3]))
    a = case['args']
    names = case['names']
    obs = dict(outcome='returned')
    d = tempfile.mkdtemp(prefix='symdd_json')
    cwd = os.getcwd()
    os.chdir(d)
    try:
        bdd = concrete.install(case, B)
        ab = make_autoref(A, bdd)
        before = {k: tuple(v) for k, v in bdd._succ.items()}
        tts = {k: concrete.tt_named(bdd, k, names) for k in bdd._succ}

        def mk(u):
            f = A.Function.__new__(A.Function)
            f.node, f.bdd, f.manager = u, ab, bdd
            return f
        f1, f2 = mk(a['u1']), mk(a['u2'])
        fn = os.path.join(d, 'f.json')
        try:
            ab.dump(fn, [f1, f2])
            out = ab.load(fn)
        except Exception as e:
            return dict(violates=True, key='json/same/raises:' + type(e).__name__,
                        detail=f'JSON dump + load into the same manager of roots {a["u1"]}, {a["u2"]}: {e!r}',
                        observed=obs)
        finally:
            f1.node = f2.node = None
        if not (isinstance(out, list) and len(out) == 2 and all(isinstance(x, A.Function) for x in out)):
            return dict(violates=True, key='json/container', detail=str(out), observed=obs)
        got = [h.node for h in out]
        if got != [a['u1'], a['u2']]:
            return dict(violates=True, key='json/same/different-reference',
                        detail=f'JSON dump + load into the same manager: roots {[a["u1"], a["u2"]]} came back as {got}',
                        observed=obs)
        for k, t in before.items():
            if tuple(bdd._succ.get(k, ())) != t or concrete.tt_named(bdd, k, names) != tts[k]:
                return dict(violates=True, key='json/same/changes-node', detail=f'node {k}', observed=obs)
        held = dict(ext)
        for h in out:
            held[abs(h.node)] = held.get(abs(h.node), 0) + 1
        bad = concrete.check_inv(bdd, held, check_cache=False)
        for h in out:
            h.node = None
        if bad:
            return dict(violates=True, key='json/same/counts:' + bad[0].split()[0],
                        detail='JSON dump + load into the same manager: ' + '; '.join(bad[:3]), observed=obs)
        return dict(violates=False, detail='ok', observed=obs)
    finally:
        os.chdir(cwd)
        shutil.rmtree(d, ignore_errors=True)


def replay(case):
    """Real files and real shelve in a private scratch directory."""
    import os
    import shutil
    import tempfile
    B = concrete.fresh_dd()
    import dd.autoref as A
    import dd._copy as C
    if case.get('args', {}).get('variant') == 'same':
        return replay_same(case)
    cs = dict(case['source'])
    cs.pop('ref', None)
    bad0 = concrete.check_inv(concrete.install(cs), None)
    if bad0:
        return dict(violates=False, invalid_pre=True, detail=str(bad0[:3]))
    a = case['args']
    variant, perm = a['variant'], a['perm']
    names = cs['names']
    L = len(names)
    obs = dict(outcome='returned')
    d = tempfile.mkdtemp(prefix='symdd_json')
    cwd = os.getcwd()
    os.chdir(d)
    try:
        src = concrete.install(cs, B)
        for k in src._succ:
            src._ref[k] += 1
        dst = nodel_class(B)()
        if variant.startswith('other'):
            tn = [None] * L
            for i, p in enumerate(perm):
                tn[p] = names[i]
            dst.declare(*tn)
        load_order = variant in ('fresh_order', 'other_order_load_order')
        asrc, adst = make_autoref(A, src), make_autoref(A, dst)
        f1, f2 = A.Function(a['u1'], asrc), A.Function(a['u2'], asrc)
        rts = dict(f=f1, g=f2) if variant == 'fresh_dict' else [f1, f2]
        fn = os.path.join(d, 'f.json')
        try:
            asrc.dump(fn, rts)
            out = C.load_json(fn, adst, load_order=True) if load_order else adst.load(fn)
        except Exception as e:
            return dict(violates=True, key='json/raises:' + type(e).__name__,
                        detail=f'JSON dump/load ({variant}) of roots {a["u1"]}, {a["u2"]}: {e!r}', observed=obs)
        vals = list(out.values()) if isinstance(out, dict) else list(out)
        shape = (isinstance(out, dict) and sorted(out) == ['f', 'g']) if variant == 'fresh_dict' else \
            (isinstance(out, list) and len(out) == 2)
        if not shape or not all(isinstance(x, A.Function) and x.bdd is adst for x in vals):
            return dict(violates=True, key='json/container', detail=str(out), observed=obs)
        got = [out['f'], out['g']] if isinstance(out, dict) else list(out)
        want_order = {nm: i for i, nm in enumerate(names)}
        if (load_order and dict(dst.vars) != want_order) or set(dst.vars) != set(names) or \
                sorted(dst.vars.values()) != list(range(L)):
            return dict(violates=True, key='json/variable-order',
                        detail=f'JSON load ({variant}): order {dict(dst.vars)}, dumped {want_order}',
                        observed=obs)
        for uu, h in zip([a['u1'], a['u2']], got):
            if concrete.tt_named(dst, h.node, names) != concrete.tt_named(src, uu, names):
                return dict(violates=True, key='json/wrong-function',
                            detail=f'JSON dump/load ({variant}): root {uu} loaded as {h.node}', observed=obs)
        held = {1: 1}
        for h in got:
            held[abs(h.node)] = held.get(abs(h.node), 0) + 1
        bad = concrete.check_inv(dst, held, check_cache=False)
        if bad:
            return dict(violates=True, key='json/counts:' + bad[0].split()[0],
                        detail=f'JSON dump/load ({variant}): ' + '; '.join(bad[:3]), observed=obs)
        return dict(violates=False, detail='ok', observed=obs)
    finally:
        os.chdir(cwd)
        shutil.rmtree(d, ignore_errors=True)
