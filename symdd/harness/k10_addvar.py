"""K10: `add_var(var, level)` / `declare` from an arbitrary valid state: new
and existing names, symbolic level.  Mode U (`_check_var`, `_next_free_level`,
`_init_terminal` real).  Adding a variable must move the terminal, keep every
node and every function (by name), keep the four views of the order
consistent; conflicting requests are refused without any change."""
import z3

from .. import engine, base, concrete, oracle
from ..engine import SymInt, _z
from ..mgr import SymMgr
from ..state import Den, inv_struct, state_equal
from ..base import Goal

FUNCTIONS = ['dd.bdd.BDD.add_var', 'dd.bdd.BDD.declare', 'dd.bdd.BDD._check_var',
             'dd.bdd.BDD._next_free_level', 'dd.bdd.BDD._init_terminal',
             'dd.bdd.BDD.var_at_level', 'dd.bdd.BDD.level_of_var', 'dd.bdd.BDD.var_levels']

KINDS = ['new', 'new_level', 'existing', 'existing_level', 'declare_mixed', 'constructor_orders']


def views_consistent(bdd):
    L = len(bdd.vars)
    try:
        ok = sorted(bdd.vars.values()) == list(range(L))
        ok = ok and dict(bdd.var_levels) == dict(bdd.vars)
        for nm, lv in bdd.vars.items():
            ok = ok and bdd.var_at_level(lv) == nm and bdd.level_of_var(nm) == lv
        if hasattr(bdd, '_level_to_var'):
            ok = ok and len(bdd._level_to_var) == L
        return ok
    except Exception:
        return False


class Harness:
    name = 'K10.add_var'
    mode = 'U'

    def __init__(self, N=4, L=2, via=None):
        self.N, self.L = N, L
        self.via = via or ['bdd']

    def install(self):
        self.B = base.import_dd('dd.bdd')
        self.A = base.import_dd('dd.autoref')
        self.sh = base.Shadow()
        base.std_shadows(self.sh, self.B)

    def constructor_orders(self):
        import itertools
        c = engine.CTX
        L = self.L + 1
        names = [chr(97 + i) for i in range(L)]
        perms = list(itertools.permutations(range(L)))
        perm = perms[c.choose(len(perms), 'insertion-order')]
        items = [(names[i], i) for i in perm]
        case = dict(harness='k10_addvar', args=dict(kind='constructor_orders', items=[list(x) for x in items]))
        probs = ctor_check(self.B, items)
        res = [dict(name='declaring_with_explicit_levels_in_any_order_gives_a_valid_manager',
                    kind='property', status='sat' if probs else 'unsat', t=0.0,
                    case=case if probs else None)]
        return dict(outcome='constructed', goals=res, witness=case, expect=dict(outcome='returned'))

    def run(self):
        c = engine.CTX
        N, L = self.N, self.L
        kind = KINDS[c.choose(len(KINDS), 'kind')]
        if kind == 'constructor_orders':
            return self.constructor_orders()
        m = SymMgr(N, 0, L, with_cache=True)
        m.decl = 'choose'
        m.assume_pre()
        bdd = m.install(self.B)
        st0, st, den = m.st0, m.st, m.den
        names = m.names
        lvl = z3.Int('lvl')
        c.assume(z3.And(lvl >= 0, lvl <= L + 2))
        which = c.choose(L, 'which') if kind.startswith('existing') else 0
        vars0 = dict(bdd.vars)
        via = self.via[c.choose(len(self.via), 'via')] if len(self.via) > 1 else self.via[0]
        T = bdd
        if via == 'autoref':
            T = base.make_autoref(self.A, bdd)

        def extract(model):
            case = m.extract(model)
            case['args'] = dict(kind=kind, lvl=base.ev_int(model, lvl), which=which, via=via)
            case['harness'] = 'k10_addvar'
            return case

        exc = ret = None
        try:
            if kind == 'new':
                ret = T.add_var('znew')
            elif kind == 'new_level':
                ret = T.add_var('znew', SymInt(lvl))
            elif kind == 'existing':
                ret = T.add_var(names[which])
            elif kind == 'existing_level':
                ret = T.add_var(names[which], SymInt(lvl))
            else:
                T.declare(names[0], 'znew', names[-1], 'znew')
                ret = L
        except ValueError as e:
            exc = e
        except Exception as e:
            exc = e
        m.read_post()
        # levels that went through the order maps were concretised by the
        # dict lookups of the real code: make the maps plain again
        for k in list(bdd.vars):
            bdd.vars[k] = int(bdd.vars[k])
        for k in list(bdd._level_to_var):
            v = bdd._level_to_var.pop(k)
            bdd._level_to_var[int(k)] = v
        if ret is not None and not isinstance(ret, int):
            ret = SymInt(_z(ret))
        goals = []
        if exc is not None:
            if kind == 'new_level':
                legit = lvl != L       # only the next bottom level is free
            elif kind == 'existing_level':
                legit = lvl != which
            else:
                legit = z3.BoolVal(False)
            goals.append(Goal('refusal_justified',
                              legit if isinstance(exc, ValueError) else z3.BoolVal(False)))
            goals.append(Goal('refusal_leaves_manager',
                              z3.And(state_equal(st0, st, m.ids),
                                     z3.BoolVal(dict(bdd.vars) == vars0 and views_consistent(bdd)
                                                and dict(T.vars) == vars0 and views_consistent(T)))))
            res = base.discharge(goals, [], extract)
            return dict(outcome='refused', goals=res, witness=base.witness(extract),
                        expect=dict(outcome='raised:' + type(exc).__name__))
        added = 'znew' in bdd.vars
        L2 = L + 1 if added else L
        goals.append(Goal('views_consistent', z3.BoolVal(
            views_consistent(bdd) and views_consistent(T) and dict(T.vars) == dict(bdd.vars))))
        goals.append(Goal('old_names_keep_levels',
                          z3.BoolVal(all(bdd.vars.get(n) == vars0[n] for n in vars0))))
        if kind in ('new', 'new_level', 'declare_mixed'):
            goals.append(Goal('new_name_gets_next_bottom_level',
                              z3.BoolVal(added and bdd.vars['znew'] == L)))
            goals.append(Goal('returns_level', _z(ret) == L))
            if kind == 'new_level':
                goals.append(Goal('accepted_only_free_level', lvl == L))
        else:
            goals.append(Goal('idempotent_for_existing', z3.BoolVal(not added)))
            goals.append(Goal('returns_level', _z(ret) == which))
            if kind == 'existing_level':
                goals.append(Goal('accepted_only_own_level', lvl == which))
        # nodes unchanged, terminal moved
        same = [z3.Select(st.LV, 1) == L2]
        for k in m.ids[1:]:
            same.append(z3.Select(st.P, k) == z3.Select(st0.P, k))
            same.append(z3.Implies(z3.Select(st0.P, k), z3.And(
                z3.Select(st.LV, k) == z3.Select(st0.LV, k),
                z3.Select(st.LO, k) == z3.Select(st0.LO, k),
                z3.Select(st.HI, k) == z3.Select(st0.HI, k))))
        goals.append(Goal('nodes_unchanged_terminal_moved', z3.And(same)))
        goals.append(Goal('reduced_ordered', z3.And(inv_struct(st, m.ids, L2))))
        goals.append(Goal('unique_table_sound', m.g_pred_sound()))
        goals.append(Goal('counts_exact', m.g_refs()))
        den2 = Den(L2, '2')
        ax = den2.axioms(st, m.ids)
        keep = [z3.Implies(z3.Select(st0.P, k),
                           z3.Select(den2.D, k) == oracle.bv_embed(z3.Select(den.D, k), L, L2, list(range(L))))
                for k in m.ids]
        goals.append(Goal('functions_unchanged_by_name', z3.And(keep)))
        res = base.discharge(goals, ax, extract)
        wit = base.witness(extract)
        return dict(outcome='added' if added else 'idempotent', goals=res, witness=wit,
                    expect=dict(outcome='returned', vars=dict(bdd.vars)))


def ctor_check(B, items, cls=None):
    """BDD(levels) / add_var with explicit levels given in any insertion
    order: afterwards the terminal is at the bottom, the views agree, every
    declared variable can be used and an unused one can be removed."""
    from ..mgr import nodel_class
    bdd = nodel_class(B)(dict(items))
    L = len(items)
    probs = []
    if bdd._succ.get(1) != (L, None, None):
        probs.append(f'terminal at {bdd._succ.get(1)} after BDD({dict(items)})')
    if not views_consistent(bdd) or dict(bdd.vars) != dict(items):
        probs.append(f'order views inconsistent: {bdd.vars} / {bdd._level_to_var}')
    try:
        for nm, lv in items:
            u = bdd.var(nm)
            if bdd._succ[abs(u)][0] != lv:
                probs.append(f'var({nm}) at level {bdd._succ[abs(u)][0]}')
        bad = concrete.check_inv(bdd, None)
        if bad:
            probs.append(bad[0])
        bdd.collect_garbage()
        bdd.undeclare_vars(items[0][0])
        if items[0][0] in bdd.vars:
            probs.append('unused variable not removed')
    except Exception as e:
        probs.append(f'declared variables unusable: {e!r}')
    return probs


def replay(case):
    B = concrete.fresh_dd()
    if case.get('args', {}).get('kind') == 'constructor_orders':
        probs = ctor_check(B, [tuple(x) for x in case['args']['items']])
        if probs:
            return dict(violates=True, key='add_var/out-of-order-declaration',
                        detail=f'BDD({dict(map(tuple, case["args"]["items"]))}): ' + '; '.join(probs[:2]),
                        observed=dict(outcome='returned'))
        return dict(violates=False, detail='ok', observed=dict(outcome='returned'))
    ext = concrete.ext_of(case)
    bad0 = concrete.check_inv(concrete.install(case), ext)
    if bad0:
        return dict(violates=False, invalid_pre=True, detail=str(bad0[:3]))
    bdd = concrete.install(case, B)
    a = case['args']
    names = case['names']
    L = case['L']
    kind, lvl, which = a['kind'], a['lvl'], a['which']
    vars0 = dict(bdd.vars)
    before = concrete.snapshot(bdd)
    tts = {k: concrete.tt_named(bdd, k, names) for k in bdd._succ}
    T = bdd
    if a.get('via') == 'autoref':
        import dd.autoref as A
        T = base.make_autoref(A, bdd)
    exc = ret = None
    try:
        if kind == 'new':
            ret = T.add_var('znew')
        elif kind == 'new_level':
            ret = T.add_var('znew', lvl)
        elif kind == 'existing':
            ret = T.add_var(names[which])
        elif kind == 'existing_level':
            ret = T.add_var(names[which], lvl)
        else:
            T.declare(names[0], 'znew', names[-1], 'znew')
            ret = L
    except Exception as e:
        exc = e
    call = f'add_var[{kind}](level={lvl}, which={which})' + (' via dd.autoref' if T is not bdd else '')
    obs = dict(outcome='raised:' + type(exc).__name__ if exc else 'returned', vars=dict(bdd.vars))
    if exc is not None:
        legit = (kind == 'new_level' and lvl != L) or (kind == 'existing_level' and lvl != which)
        if not legit or not isinstance(exc, ValueError):
            return dict(violates=True, key='add_var/refuses-valid', detail=f'{call} raised {exc!r}', observed=obs)
        after = concrete.snapshot(bdd)
        if after != before:
            return dict(violates=True, key='add_var/refusal-mutates', detail=call, observed=obs)
        return dict(violates=False, detail='refused', observed=obs)
    if kind == 'new_level' and lvl > L:
        return dict(violates=True, key='add_var/level-beyond-bottom-accepted',
                    detail=f'{call} accepted a level that leaves a gap: vars now {bdd.vars}, '
                           f'terminal at level {bdd._succ[1][0]}', observed=obs)
    if (kind == 'new_level' and lvl != L) or (kind == 'existing_level' and lvl != which):
        return dict(violates=True, key='add_var/accepts-conflict',
                    detail=f'{call} accepted a conflicting level, vars now {bdd.vars}', observed=obs)
    if not views_consistent(bdd):
        return dict(violates=True, key='add_var/views', detail=f'{call}: vars {bdd.vars} l2v {bdd._level_to_var}', observed=obs)
    if T is not bdd and (not views_consistent(T) or dict(T.vars) != dict(bdd.vars)):
        return dict(violates=True, key='add_var/autoref-views',
                    detail=f'{call} through dd.autoref: wrapper vars {dict(T.vars)}, manager {dict(bdd.vars)}', observed=obs)
    for n in vars0:
        if bdd.vars.get(n) != vars0[n]:
            return dict(violates=True, key='add_var/moves-old-variable', detail=f'{call}: {bdd.vars}', observed=obs)
    if kind in ('new', 'new_level', 'declare_mixed') and bdd.vars.get('znew') != L:
        return dict(violates=True, key='add_var/new-level', detail=f'{call}: {bdd.vars}', observed=obs)
    if kind.startswith('existing') and 'znew' in bdd.vars:
        return dict(violates=True, key='add_var/not-idempotent', detail=call, observed=obs)
    for k, t in tts.items():
        if k not in bdd._succ or concrete.tt_named(bdd, k, names) != t:
            return dict(violates=True, key='add_var/changes-function', detail=f'{call}: node {k}', observed=obs)
        if 'znew' in bdd.vars and concrete.depends_tt(concrete.tt(bdd, k), bdd.vars['znew'], len(bdd.vars)):
            return dict(violates=True, key='add_var/depends-on-new', detail=f'{call}: node {k}', observed=obs)
    bad = concrete.check_inv(bdd, ext)
    if bad:
        return dict(violates=True, key='add_var/invariant:' + bad[0].split()[0],
                    detail=f'{call}: ' + '; '.join(bad[:3]), observed=obs)
    return dict(violates=False, detail='ok', observed=obs)
