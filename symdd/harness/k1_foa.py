"""K1: one step of the real `BDD.find_or_add` from an arbitrary valid state.

sym: the whole manager state (INV), the ledger EXT, the arguments i, v, w
(unconstrained integers).  runs: find_or_add, _next_free_int, incref,
_request_reordering (reordering off).  mode U (nothing stubbed).
"""
import z3

from .. import engine, base, concrete
from ..engine import SymInt, _z
from ..mgr import SymMgr
from ..state import zabs, state_equal
from ..base import Goal

FUNCTIONS = ['dd.bdd.BDD.find_or_add', 'dd.bdd.BDD._next_free_int',
             'dd.bdd.BDD.incref', 'dd.bdd._request_reordering']


class Harness:
    name = 'K1.find_or_add'
    mode = 'U'

    def __init__(self, N=4, L=3, K=1):
        self.N, self.L, self.K = N, L, K

    def install(self):
        self.B = base.import_dd('dd.bdd')
        self.sh = base.Shadow()
        base.std_shadows(self.sh, self.B)

    def run(self):
        c = engine.CTX
        N, L, K = self.N, self.L, self.K
        m = SymMgr(N, K, L, with_cache=True)
        m.assume_pre()
        bdd = m.install(self.B)
        i, v, w = z3.Ints('i v w')
        st0, st, den = m.st0, m.st, m.den

        def extract(model):
            case = m.extract(model)
            case['args'] = dict(i=base.ev_int(model, i), v=base.ev_int(model, v),
                                w=base.ev_int(model, w))
            case['harness'] = 'k1_foa'
            return case

        exc = None
        r = None
        try:
            r = bdd.find_or_add(SymInt(i), SymInt(v), SymInt(w))
        except (ValueError, KeyError, AssertionError, RuntimeError, TypeError) as e:
            exc = e
        m.read_post()
        if isinstance(exc, RuntimeError) and 'full' in str(exc):
            raise engine.OutOfBound('max_nodes')
        goals = []
        expect = {}
        if exc is not None:
            legit = z3.Or(i < 0, i >= L, z3.Not(m.present0(v)), z3.Not(m.present0(w)))
            ok_type = isinstance(exc, ValueError)
            goals.append(Goal('refusal_justified',
                              legit if ok_type else z3.BoolVal(False)))
            goals.append(Goal('refusal_leaves_state',
                              state_equal(st0, st, m.ids2)))
            outcome = 'raised:' + type(exc).__name__
            res = base.discharge(goals, [], extract)
            wit = base.witness(extract)
            return dict(outcome=outcome, goals=res, witness=wit,
                        expect=dict(outcome=outcome))
        rz = _z(r)
        # documented precondition: the children are below level i
        prec = z3.And(m.lvl0(v) > i, m.lvl0(w) > i)
        m.define_new_nodes()
        x = den.var(i)
        want = (x & den.s(w)) | (~x & den.s(v))
        goals.append(Goal('result_denotes_node',
                          z3.And(m.present1(rz), den.s(rz) == want)))
        goals.append(Goal('old_nodes_unchanged', m.g_frame()))
        goals.append(Goal('reduced_ordered', m.g_inv_struct()))
        goals.append(Goal('unique_table_sound', m.g_pred_sound()))
        goals.append(Goal('counts_exact', m.g_refs()))
        goals.append(Goal('cache_still_valid', m.g_cache_sound()))
        goals.append(Goal('min_free', m.g_minfree(), kind='aux'))
        res = base.discharge(goals, [prec], extract)
        # outcome class
        created = st.P is not st0.P
        outcome = 'created' if created else 'found_or_eliminated'
        wit = base.witness(extract, [prec])
        if wit is not None:
            mdl = c.solver.model()
            expect = dict(outcome='returned', result=base.ev_int(mdl, rz),
                          result_tt=mdl.eval(den.s(rz), model_completion=True).as_long())
        return dict(outcome=outcome, goals=res, witness=wit, expect=expect)


# ---------------------------------------------------------------------------
# concrete side

def run_concrete(case):
    """Run the real call on the concrete manager of `case`."""
    B = concrete.fresh_dd()
    bdd = concrete.install(case, B)
    a = case['args']
    before = concrete.snapshot(bdd)
    pre = dict(tv=None, tw=None)
    L = case['L']
    ok_args = (0 <= a['i'] < L and abs(a['v']) in bdd._succ and abs(a['w']) in bdd._succ
               and a['v'] != 0 and a['w'] != 0)
    if ok_args:
        pre['tv'] = concrete.tt(bdd, a['v'])
        pre['tw'] = concrete.tt(bdd, a['w'])
        pre['order'] = (bdd._succ[abs(a['v'])][0] > a['i'] and
                        bdd._succ[abs(a['w'])][0] > a['i'])
    old_tt = {k: concrete.tt(bdd, k) for k in bdd._succ}
    exc = None
    r = None
    try:
        r = bdd.find_or_add(a['i'], a['v'], a['w'])
    except Exception as e:
        exc = e
    return bdd, before, pre, ok_args, old_tt, r, exc


def replay(case):
    """Judge the property on the concrete run.  Returns dict(violates, detail,
    key, observed)."""
    bdd, before, pre, ok_args, old_tt, r, exc = run_concrete(case)
    L = case['L']
    a = case['args']
    ext = concrete.ext_of(case)
    bad0 = concrete.check_inv(concrete.install(case), ext)
    if bad0:
        return dict(violates=False, invalid_pre=True, detail='pre-state invalid: %s' % bad0[:3])
    obs = dict(outcome='raised:' + type(exc).__name__ if exc else 'returned', result=r)
    if exc is not None:
        if ok_args:
            return dict(violates=True, key='K1/refuses-valid-arguments',
                        detail=f'find_or_add{tuple(a.values())} raised {exc!r} for valid arguments',
                        observed=obs)
        if not isinstance(exc, ValueError):
            return dict(violates=True, key='K1/wrong-exception',
                        detail=f'find_or_add raised {type(exc).__name__} instead of ValueError',
                        observed=obs)
        after = concrete.snapshot(bdd)
        if after != before:
            return dict(violates=True, key='K1/refusal-mutates',
                        detail='refused call changed the manager', observed=obs)
        return dict(violates=False, detail='legit refusal', observed=obs)
    if not ok_args:
        return dict(violates=True, key='K1/accepts-invalid-arguments',
                    detail=f'find_or_add{tuple(a.values())} accepted invalid arguments',
                    observed=obs)
    if not pre['order']:
        return dict(violates=False, skipped='ordering precondition not met', observed=obs)
    if abs(r) not in bdd._succ:
        return dict(violates=True, key='K1/result-absent', detail=f'result {r} not in manager', observed=obs)
    want = concrete.bv_ite(concrete.var_tt(a['i'], L), pre['tw'], pre['tv'], L)
    got = concrete.tt(bdd, r)
    obs['result_tt'] = got
    if got != want:
        return dict(violates=True, key='K1/wrong-function',
                    detail=f'find_or_add{tuple(a.values())} -> {r} denotes {got:#x}, expected {want:#x}',
                    observed=obs)
    for k, t in old_tt.items():
        if k not in bdd._succ or concrete.tt(bdd, k) != t:
            return dict(violates=True, key='K1/old-node-changed',
                        detail=f'node {k} changed or disappeared', observed=obs)
    ext2 = dict(ext)
    bad = concrete.check_inv(bdd, ext2)
    if bad:
        return dict(violates=True, key='K1/invariant:' + bad[0].split()[0],
                    detail='; '.join(bad[:3]), observed=obs)
    return dict(violates=False, detail='ok', observed=obs)
