"""K2: the real `BDD._top_cofactor(u, i)` on an arbitrary valid state: the
pair denotes the two cofactors at level i for i <= level(u); it refuses
i > level(u).  Mode U, read-only."""
import z3

from .. import engine, base, concrete, oracle
from ..engine import SymInt, _z
from ..mgr import SymMgr
from ..state import state_equal
from ..base import Goal

FUNCTIONS = ['dd.bdd.BDD._top_cofactor']


class Harness:
    name = 'K2._top_cofactor'
    mode = 'U'

    def __init__(self, N=4, L=3):
        self.N, self.L = N, L

    def install(self):
        self.B = base.import_dd('dd.bdd')
        self.sh = base.Shadow()
        base.std_shadows(self.sh, self.B)

    def run(self):
        c = engine.CTX
        m = SymMgr(self.N, 0, self.L, with_cache=False, with_refs=False)
        m.assume_pre()
        bdd = m.install(self.B)
        den = m.den
        u = z3.Int('u')
        c.assume(m.present0(u))
        i = c.choose(self.L + 1, 'level')

        def extract(model):
            case = m.extract(model)
            case['args'] = dict(u=base.ev_int(model, u), i=i)
            case['harness'] = 'k2_topcof'
            return case

        exc = r = None
        try:
            r = bdd._top_cofactor(SymInt(u), i)
        except AssertionError as e:
            exc = e
        except Exception as e:
            exc = e
        m.read_post()
        if exc is not None:
            ok = isinstance(exc, AssertionError)
            g = [Goal('refusal_only_below_top_level',
                      (i > m.lvl0(u)) if ok else z3.BoolVal(False))]
            return dict(outcome='raised:' + type(exc).__name__,
                        goals=base.discharge(g, [], extract),
                        witness=base.witness(extract),
                        expect=dict(outcome='raised:' + type(exc).__name__))
        lo, hi = _z(r[0]), _z(r[1])
        f = den.s(u)
        ii = min(i, self.L - 1)
        if i >= self.L:
            want0 = want1 = f
        else:
            want0, want1 = oracle.bv_cof(den, f, i, 0), oracle.bv_cof(den, f, i, 1)
        goals = [
            Goal('pair_denotes_cofactors', z3.And(
                m.present0(lo), m.present0(hi),
                den.s(lo) == want0, den.s(hi) == want1)),
            Goal('cofactors_below_level', z3.And(m.lvl0(lo) > i, m.lvl0(hi) > i) if i < self.L
                 else z3.BoolVal(True), kind='aux'),
            Goal('state_unchanged', state_equal(m.st0, m.st, m.ids, with_cache=False)),
        ]
        res = base.discharge(goals, [], extract)
        wit = base.witness(extract)
        expect = {}
        if wit is not None:
            mdl = c.solver.model()
            expect = dict(outcome='returned', result=[base.ev_int(mdl, lo), base.ev_int(mdl, hi)])
        return dict(outcome='returned', goals=res, witness=wit, expect=expect)


def replay(case):
    B = concrete.fresh_dd()
    L = case['L']
    bad0 = concrete.check_inv(concrete.install(case), None)
    if bad0:
        return dict(violates=False, invalid_pre=True, detail=str(bad0[:3]))
    bdd = concrete.install(case, B)
    a = case['args']
    f = concrete.tt(bdd, a['u'])
    lv = bdd._succ[abs(a['u'])][0]
    exc = r = None
    try:
        r = bdd._top_cofactor(a['u'], a['i'])
    except Exception as e:
        exc = e
    obs = dict(outcome='raised:' + type(exc).__name__ if exc else 'returned',
               result=list(r) if r else None)
    call = f'_top_cofactor({a["u"]}, {a["i"]})'
    if exc is not None:
        if a['i'] > lv:
            return dict(violates=False, detail='legit refusal', observed=obs)
        return dict(violates=True, key='top_cofactor/raises', detail=f'{call} raised {exc!r}', observed=obs)
    if a['i'] > lv:
        return dict(violates=False, skipped='level below the node: undefined', observed=obs)
    for val, e in ((0, r[0]), (1, r[1])):
        want = f if a['i'] >= L else concrete.cof_tt(f, a['i'], val, L)
        if abs(e) not in bdd._succ or concrete.tt(bdd, e) != want:
            return dict(violates=True, key='top_cofactor/wrong-cofactor',
                        detail=f'{call} -> {r}: component {val} is wrong', observed=obs)
    return dict(violates=False, detail='ok', observed=obs)
