"""K3: the real `BDD.ite` (decorator, `_ite` recursion, `_top_cofactor`,
`find_or_add`, computed table) from an arbitrary valid state including an
arbitrary *valid* computed table.  Mode U: nothing stubbed.
"""
import z3

from .. import engine, base, concrete
from ..engine import SymInt, _z
from ..mgr import SymMgr
from ..state import zabs
from ..base import Goal

FUNCTIONS = ['dd.bdd.BDD.ite', 'dd.bdd.BDD._ite', 'dd.bdd.BDD._top_cofactor',
             'dd.bdd.BDD.find_or_add', 'dd.bdd.BDD._next_free_int',
             'dd.bdd._try_to_reorder', 'dd.bdd._ReorderingContext.__exit__']


def zmin3(a, b, c):
    m = z3.If(a < b, a, b)
    return z3.If(c < m, c, m)


class Harness:
    name = 'K3.ite'
    mode = 'U'

    def __init__(self, N=3, L=2, K=2):
        self.N, self.L, self.K = N, L, K

    def install(self):
        self.B = base.import_dd('dd.bdd')
        self.sh = base.Shadow()
        base.std_shadows(self.sh, self.B)

    def run(self):
        c = engine.CTX
        m = SymMgr(self.N, self.K, self.L, with_cache=True)
        m.assume_pre()
        bdd = m.install(self.B)
        g, u, v = z3.Ints('g u v')
        for x in (g, u, v):
            c.assume(m.present0(x))
        st0, st, den = m.st0, m.st, m.den

        def extract(model):
            case = m.extract(model)
            case['args'] = dict(g=base.ev_int(model, g), u=base.ev_int(model, u),
                                v=base.ev_int(model, v))
            case['harness'] = 'k3_ite'
            return case

        exc = None
        r = None
        try:
            r = bdd.ite(SymInt(g), SymInt(u), SymInt(v))
        except RuntimeError as e:
            if 'full' in str(e):
                raise engine.OutOfBound('max_nodes')
            exc = e
        except Exception as e:
            exc = e
        m.read_post()
        if exc is not None:
            res = base.discharge([Goal('never_raises_for_valid_operands', z3.BoolVal(False))],
                                 [], extract)
            return dict(outcome='raised:' + type(exc).__name__, goals=res,
                        witness=None, expect={})
        rz = _z(r)
        m.define_new_nodes()
        want = den.ite(den.s(g), den.s(u), den.s(v))
        goals = [
            Goal('result_is_ite', z3.And(m.present1(rz), den.s(rz) == want)),
            Goal('old_nodes_unchanged', m.g_frame()),
            Goal('reduced_ordered', m.g_inv_struct()),
            Goal('unique_table_sound', m.g_pred_sound()),
            Goal('counts_exact', m.g_refs()),
            Goal('cache_valid_after', m.g_cache_sound()),
            Goal('result_level_bound',
                 z3.Select(st.LV, zabs(rz)) >= zmin3(m.lvl0(g), m.lvl0(u), m.lvl0(v)),
                 kind='aux'),
            Goal('min_free', m.g_minfree(), kind='aux'),
            Goal('context_flag_restored', z3.BoolVal(bdd._reordering_context is False)),
        ]
        res = base.discharge(goals, [], extract)
        created = st.P is not st0.P
        hit = st.IT is st0.IT and not created
        outcome = 'created' if created else ('no_new_node')
        wit = base.witness(extract)
        expect = {}
        if wit is not None:
            mdl = c.solver.model()
            expect = dict(outcome='returned', result=base.ev_int(mdl, rz),
                          result_tt=mdl.eval(den.s(rz), model_completion=True).as_long())
        return dict(outcome=outcome, goals=res, witness=wit, expect=expect)


def replay(case):
    B = concrete.fresh_dd()
    L = case['L']
    ext = concrete.ext_of(case)
    bad0 = concrete.check_inv(concrete.install(case), ext)
    if bad0:
        return dict(violates=False, invalid_pre=True, detail='pre-state invalid: %s' % bad0[:3])
    bdd = concrete.install(case, B)
    a = case['args']
    tg, tu, tv = (concrete.tt(bdd, a[k]) for k in 'guv')
    old_tt = {k: concrete.tt(bdd, k) for k in bdd._succ}
    exc = r = None
    try:
        r = bdd.ite(a['g'], a['u'], a['v'])
    except Exception as e:
        exc = e
    obs = dict(outcome='raised:' + type(exc).__name__ if exc else 'returned', result=r)
    call = f'ite({a["g"]}, {a["u"]}, {a["v"]})'
    if exc is not None:
        return dict(violates=True, key='ite/raises-for-valid-operands',
                    detail=f'{call} raised {exc!r}', observed=obs)
    if abs(r) not in bdd._succ:
        return dict(violates=True, key='ite/result-absent', detail=f'{call} -> {r} not in manager', observed=obs)
    want = concrete.bv_ite(tg, tu, tv, L)
    got = concrete.tt(bdd, r)
    obs['result_tt'] = got
    if got != want:
        return dict(violates=True, key='ite/wrong-function',
                    detail=f'{call} -> {r} denotes {got:#x}, expected {want:#x}', observed=obs)
    for k, t in old_tt.items():
        if k not in bdd._succ or concrete.tt(bdd, k) != t:
            return dict(violates=True, key='ite/old-node-changed',
                        detail=f'{call}: node {k} changed or disappeared', observed=obs)
    bad = concrete.check_inv(bdd, ext)
    if bad:
        return dict(violates=True, key='ite/invariant:' + bad[0].split()[0],
                    detail=f'{call}: ' + '; '.join(bad[:3]), observed=obs)
    # follow-up: what the cache now remembers must be what a later call returns
    for (g, u, v), w in list(bdd._ite_table.items()):
        w2 = bdd.ite(g, u, v)
        if concrete.tt(bdd, w2) != concrete.bv_ite(concrete.tt(bdd, g), concrete.tt(bdd, u), concrete.tt(bdd, v), L):
            return dict(violates=True, key='ite/stale-cache',
                        detail=f'after {call}, ite{(g, u, v)} returns a wrong function', observed=obs)
    return dict(violates=False, detail='ok', observed=obs)
