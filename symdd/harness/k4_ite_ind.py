"""K4: the body of the real `BDD._ite` by induction on the top level of the
operands.  The two recursive calls are replaced by the induction hypothesis
(a result that satisfies the `ite` contract in a fresh post-state sigma' with
INV(sigma') and the frame sigma <= sigma'); everything else (terminal cases,
computed-table lookup and store, `_top_cofactor`, `find_or_add`) is the real
code.  The measure (minimum level of the operands) must strictly increase in
every recursive call (goal `measure`).  Mode M.
"""
import z3

from .. import engine, base, concrete
from ..engine import SymInt, _z
from ..mgr import SymMgr
from ..state import (State, zabs, inv_struct, inv_minfree, same_nodes, present)
from ..base import Goal
from . import k3_ite

FUNCTIONS = ['dd.bdd.BDD._ite', 'dd.bdd.BDD._top_cofactor',
             'dd.bdd.BDD.find_or_add', 'dd.bdd.BDD._next_free_int']
ASSUMPTIONS = ['K4: induction hypothesis for the two recursive _ite calls '
               '(justified by the strictly increasing measure, goal `measure`)']


class Harness:
    name = 'K4._ite-induction'
    mode = 'M'

    def __init__(self, NT=4, L=2):
        self.NT, self.L = NT, L

    def install(self):
        self.B = base.import_dd('dd.bdd')
        self.sh = base.Shadow()
        base.std_shadows(self.sh, self.B)

    def run(self):
        c = engine.CTX
        NT, L = self.NT, self.L
        m = SymMgr(NT, 0, L, with_cache=True, with_refs=False)
        m.assume_pre()
        c.assume(m.st0.MF <= NT)          # room for the one node the body may create
        bdd = m.install(self.B)
        st0, st, den = m.st0, m.st, m.den
        for k in m.ids:
            c.assume(z3.Select(st0.RP, k) == z3.Select(st0.P, k))
        g, u, v = z3.Ints('g u v')
        for x in (g, u, v):
            c.assume(m.present0(x))
        ALL = m.ids
        goals = []
        depth = [0]
        gen = [0]
        base_st = [st0]
        real_ite = self.B.BDD._ite

        def lvl(stx, e):
            return z3.Select(stx.LV, zabs(e))

        top = k3_ite.zmin3(lvl(st0, g), lvl(st0, u), lvl(st0, v))

        def ite_entry(g_, u_, v_):
            depth[0] += 1
            try:
                if depth[0] == 1:
                    return real_ite(bdd, g_, u_, v_)
                gz, uz, vz = _z(g_), _z(u_), _z(v_)
                goals.append(Goal('recursive_operands_present', z3.And(
                    present(st, gz, NT), present(st, uz, NT), present(st, vz, NT))))
                m0 = k3_ite.zmin3(lvl(st, gz), lvl(st, uz), lvl(st, vz))
                goals.append(Goal('measure', m0 > top, kind='aux'))
                gen[0] += 1
                new = State(f'_{gen[0]}')
                old = st.copy()
                for a in same_nodes(old, new, ALL):
                    c.assume(a)
                for k in ALL:
                    c.assume(z3.Select(new.RP, k) == z3.Select(new.P, k))
                for a in inv_struct(new, ALL, L):
                    c.assume(a)
                for a in den.axioms(new, ALL):
                    c.assume(a)
                for a in inv_minfree(new, NT):
                    c.assume(a)
                c.assume(new.MF <= NT)
                r = c.fresh_int('ih')
                c.assume(z3.And(
                    present(new, r, NT),
                    den.s(r) == den.ite(den.s(gz), den.s(uz), den.s(vz)),
                    z3.Select(new.LV, zabs(r)) >= m0))
                for a in State.FIELDS:
                    setattr(st, a, getattr(new, a))
                base_st[0] = new.copy()
                m.axst = new          # lookup axioms now speak about sigma'
                bdd._min_free = SymInt(new.MF)
                return SymInt(r)
            finally:
                depth[0] -= 1

        bdd._ite = ite_entry

        def extract(model):
            case = m.extract(model)
            case['args'] = dict(g=base.ev_int(model, g), u=base.ev_int(model, u),
                                v=base.ev_int(model, v))
            case['harness'] = 'k4_ite_ind'
            return case

        exc = None
        try:
            r = bdd._ite(SymInt(g), SymInt(u), SymInt(v))
        except RuntimeError as e:
            if 'full' in str(e):
                raise engine.OutOfBound('max_nodes')
            exc = e
        except Exception as e:
            exc = e
        m.read_post()
        if exc is not None:
            res = base.discharge([Goal('never_raises_for_valid_operands', z3.BoolVal(False))],
                                 [], extract)
            return dict(outcome='raised:' + type(exc).__name__, goals=res)
        rz = _z(r)
        # definitional extension for the node created by the body itself
        b = base_st[0]
        for k in ALL[1:]:
            c.assume(z3.Implies(z3.And(z3.Select(st.P, k), z3.Not(z3.Select(b.P, k))),
                                den.node_eq(st, k)))
        want = den.ite(den.s(g), den.s(u), den.s(v))
        goals += [
            Goal('result_is_ite', z3.And(present(st, rz, NT), den.s(rz) == want)),
            Goal('old_nodes_unchanged', z3.And(same_nodes(st0, st, ALL))),
            Goal('reduced_ordered', z3.And(inv_struct(st, ALL, L))),
            Goal('unique_table_sound', m.g_pred_sound()),
            Goal('cache_valid_after', m.g_cache_sound()),
            Goal('result_level_bound', z3.Select(st.LV, zabs(rz)) >= top, kind='aux'),
            Goal('min_free', z3.And(inv_minfree(st, NT)), kind='aux'),
        ]
        res = base.discharge(goals, [], extract)
        outcome = 'recursed' if gen[0] else 'terminal_or_cached'
        base.witness(extract)      # vacuity guard: the path must be satisfiable
        return dict(outcome=outcome, goals=res)


def replay(case):
    """The induction hypothesis has no concrete counterpart: the replay runs
    the whole real `ite` on the model's pre-state and operands."""
    return k3_ite.replay(case)
