"""K5: the real `BDD.apply` for every documented operator spelling.

The operator name is a finite alphabet and is iterated (a nondeterministic
choice explored exhaustively); operands are arbitrary present references of
an arbitrary valid manager.  `ite` is the contract stub (discharged by
K1/K3/K4), `quantify` a denotational contract stub (its body is the subject
of C03); `support`, `assert_operator_arity`, the membership checks are real.
"""
import z3

from .. import engine, base, concrete, oracle
from ..engine import SymInt, _z
from ..mgr import SymMgr
from ..stubs import StubWorld, assume_canon_real
from ..base import Goal

FUNCTIONS = ['dd.bdd.BDD.apply', 'dd._utils.assert_operator_arity',
             'dd.bdd.BDD.support', 'dd.bdd.BDD._support', 'dd.bdd.BDD.__contains__']
STUBS = ['BDD.ite -> contract (K3/K4)', 'BDD.quantify -> denotational contract (C03)']

# documented vocabulary (dd/_abc.py comments, doc.md): spelling -> family
FAMILY = {}
for _s in ('not', '~', '!'):
    FAMILY[_s] = 'not'
for _s in ('and', '/\\', '&', '&&'):
    FAMILY[_s] = 'and'
for _s in ('or', '\\/', '|', '||'):
    FAMILY[_s] = 'or'
for _s in ('#', 'xor', '^'):
    FAMILY[_s] = 'xor'
for _s in ('=>', '->', 'implies'):
    FAMILY[_s] = 'implies'
for _s in ('<=>', '<->', 'equiv'):
    FAMILY[_s] = 'equiv'
for _s in ('diff', '-'):
    FAMILY[_s] = 'diff'
for _s in ('\\A', 'forall'):
    FAMILY[_s] = 'forall'
for _s in ('\\E', 'exists'):
    FAMILY[_s] = 'exists'
FAMILY['ite'] = 'ite'
OPS = sorted(FAMILY)
ARITY = dict(**{'not': 1, 'ite': 3}, **{f: 2 for f in
             ('and', 'or', 'xor', 'implies', 'equiv', 'diff', 'forall', 'exists')})


def bv_family(fam, den, a, b, c3, L):
    if fam == 'not':
        return ~a
    if fam == 'and':
        return a & b
    if fam == 'or':
        return a | b
    if fam == 'xor':
        return a ^ b
    if fam == 'implies':
        return ~a | b
    if fam == 'equiv':
        return ~(a ^ b)
    if fam == 'diff':
        return a & ~b
    if fam == 'ite':
        return (a & b) | (~a & c3)
    if fam in ('forall', 'exists'):
        # first operand supplies the variables (its support), second is quantified
        r = b
        for i in range(L):
            dep = oracle.bv_depends(den, a, i)
            q = oracle.bv_quant(den, r, [i], fam == 'forall')
            r = z3.If(dep, q, r)
        return r
    raise KeyError(fam)


def int_family(fam, a, b, c3, L):
    M = concrete.mask(L)
    if fam == 'not':
        return ~a & M
    if fam == 'and':
        return a & b
    if fam == 'or':
        return a | b
    if fam == 'xor':
        return a ^ b
    if fam == 'implies':
        return (~a | b) & M
    if fam == 'equiv':
        return ~(a ^ b) & M
    if fam == 'diff':
        return a & ~b & M
    if fam == 'ite':
        return concrete.bv_ite(a, b, c3, L)
    if fam in ('forall', 'exists'):
        lv = [i for i in range(L) if concrete.depends_tt(a, i, L)]
        return concrete.quant_tt(b, lv, fam == 'forall', L)
    raise KeyError(fam)


class Harness:
    name = 'K5.apply'
    mode = 'M'

    def __init__(self, N=4, L=2, nargs=None):
        self.N, self.L = N, L

    def install(self):
        self.B = base.import_dd('dd.bdd')
        self.sh = base.Shadow()
        base.std_shadows(self.sh, self.B)

    def run(self):
        c = engine.CTX
        N, L = self.N, self.L
        op = OPS[c.choose(len(OPS), 'op')]
        nargs = 1 + c.choose(3, 'nargs')
        fam = FAMILY[op]
        m = SymMgr(N, 0, L, with_cache=False, with_refs=False)
        m.assume_pre()
        assume_canon_real(m)
        bdd = m.install(self.B)
        world = StubWorld(m)
        world.install(bdd)
        den = m.den
        u, v, w = z3.Ints('u v w')
        for x in (u, v, w):
            c.assume(m.present0(x))
        qcalls = []

        def quantify(node, qvars, forall=False):
            nz = _z(node)
            levels = sorted(bdd.vars[q] for q in qvars)
            qcalls.append((levels, forall))
            want = oracle.bv_quant(den, den.s(nz), levels, forall)
            world.obligations.append(Goal('quantify_operand_present', world.present(nz)))
            return world._fresh_result('quant', want, 0)

        bdd.quantify = quantify

        def extract(model):
            case = m.extract(model)
            case['args'] = dict(op=op, nargs=nargs, u=base.ev_int(model, u),
                                v=base.ev_int(model, v), w=base.ev_int(model, w))
            case['harness'] = 'k5_apply'
            return case

        args = [SymInt(u), SymInt(v), SymInt(w)][:nargs] + [None] * (3 - nargs)
        exc = r = None
        try:
            r = bdd.apply(op, *args)
        except Exception as e:
            exc = e
        goals = list(world.obligations)
        if nargs != ARITY[fam]:
            ok = isinstance(exc, ValueError)
            goals.append(Goal('wrong_arity_refused', z3.BoolVal(ok)))
            res = base.discharge(goals, [], extract)
            return dict(outcome='arity_refused' if ok else 'arity_accepted', goals=res,
                        witness=base.witness(extract),
                        expect=dict(outcome='raised:ValueError') if ok else {})
        if exc is not None:
            res = base.discharge([Goal('documented_operator_accepted', z3.BoolVal(False))],
                                 [], extract)
            return dict(outcome='raised:' + type(exc).__name__, goals=res)
        rz = _z(r)
        want = bv_family(fam, den, den.s(u), den.s(v), den.s(w), L)
        goals.append(Goal(f'apply_{fam}_denotes_connective',
                          z3.And(world.present(rz), den.s(rz) == want)))
        res = base.discharge(goals, [], extract)
        wit = base.witness(extract)
        expect = {}
        if wit is not None:
            mdl = c.solver.model()
            expect = dict(outcome='returned',
                          result_tt=mdl.eval(den.s(rz), model_completion=True).as_long())
        return dict(outcome='returned:' + fam, goals=res, witness=wit, expect=expect)


def replay(case):
    B = concrete.fresh_dd()
    L = case['L']
    bad0 = concrete.check_inv(concrete.install(case), None)
    if bad0:
        return dict(violates=False, invalid_pre=True, detail='pre-state invalid: %s' % bad0[:3])
    bdd = concrete.install(case, B)
    a = case['args']
    op, nargs = a['op'], a['nargs']
    fam = FAMILY[op]
    tts = [concrete.tt(bdd, a[k]) for k in 'uvw']
    args = [a['u'], a['v'], a['w']][:nargs] + [None] * (3 - nargs)
    call = f'apply({op!r}, {", ".join(map(str, args))})'
    before = concrete.snapshot(bdd)
    exc = r = None
    try:
        r = bdd.apply(op, *args)
    except Exception as e:
        exc = e
    obs = dict(outcome='raised:' + type(exc).__name__ if exc else 'returned', result=r)
    if nargs != ARITY[fam]:
        if exc is None:
            return dict(violates=True, key='apply/wrong-arity-accepted',
                        detail=f'{call} returned {r} despite wrong arity', observed=obs)
        if not isinstance(exc, ValueError):
            return dict(violates=True, key='apply/wrong-exception',
                        detail=f'{call} raised {exc!r}', observed=obs)
        if concrete.snapshot(bdd) != before:
            return dict(violates=True, key='apply/refusal-mutates', detail=call, observed=obs)
        return dict(violates=False, detail='refused', observed=obs)
    if exc is not None:
        return dict(violates=True, key='apply/raises-for-documented-operator',
                    detail=f'{call} raised {exc!r}', observed=obs)
    if abs(r) not in bdd._succ:
        return dict(violates=True, key='apply/result-absent', detail=f'{call} -> {r}', observed=obs)
    got = concrete.tt(bdd, r)
    want = int_family(fam, tts[0], tts[1], tts[2], L)
    obs['result_tt'] = got
    if got != want:
        return dict(violates=True, key=f'apply/wrong-function',
                    detail=f'{call} -> {r} denotes {got:#x}, expected {fam} = {want:#x} '
                           f'(operands {tts[0]:#x}, {tts[1]:#x}, {tts[2]:#x})', observed=obs)
    bad = concrete.check_inv(bdd, None)
    if bad:
        return dict(violates=True, key='apply/invariant:' + bad[0].split()[0],
                    detail=f'{call}: ' + '; '.join(bad[:3]), observed=obs)
    return dict(violates=False, detail='ok', observed=obs)
