"""K6: `dd.autoref.Function` operators ~ & | implies equiv <= < == != and
`autoref.BDD.apply / ite`, real autoref code on a real `dd.bdd.BDD` whose
tables are symbolic; `ite` is the contract stub, `dd.bdd.BDD.apply` is real.
"""
import z3

from .. import engine, base, concrete
from ..engine import SymInt, SymBool, _z
from ..mgr import SymMgr, nodel_class
from ..stubs import StubWorld, assume_canon_real
from ..base import Goal

FUNCTIONS = ['dd.autoref.Function.__invert__', 'dd.autoref.Function.__and__',
             'dd.autoref.Function.__or__', 'dd.autoref.Function.implies',
             'dd.autoref.Function.equiv', 'dd.autoref.Function.__le__',
             'dd.autoref.Function.__lt__', 'dd.autoref.Function.__eq__',
             'dd.autoref.Function.__ne__', 'dd.autoref.Function._apply',
             'dd.autoref.Function.__init__', 'dd.autoref.BDD.apply',
             'dd.autoref.BDD.ite', 'dd.autoref.BDD._wrap', 'dd.bdd.BDD.apply']
STUBS = ['BDD.ite -> contract (K3/K4)']

OPS = ['~', '&', '|', 'implies', 'equiv', '<=', '<', '==', '!=',
       'apply_xor', 'apply_diff', 'ite']


def make_autoref(A, manager):
    return base.make_autoref(A, manager)


class Harness:
    name = 'K6.autoref-operators'
    mode = 'M'

    def __init__(self, N=4, L=2):
        self.N, self.L = N, L

    def install(self):
        self.B = base.import_dd('dd.bdd')
        self.A = base.import_dd('dd.autoref')
        self.sh = base.Shadow()
        base.std_shadows(self.sh, self.B)

    def run(self):
        c = engine.CTX
        N, L = self.N, self.L
        op = OPS[c.choose(len(OPS), 'op')]
        m = SymMgr(N, 0, L, with_cache=False, with_refs=False)
        m.assume_pre()
        assume_canon_real(m)
        for k in m.ids:
            c.assume(z3.Select(m.st0.RP, k) == z3.Select(m.st0.P, k))
            c.assume(z3.Select(m.st0.RF, k) >= 0)
        bdd = m.install(self.B)
        world = StubWorld(m)
        world.install(bdd)
        abdd = make_autoref(self.A, bdd)
        den = m.den
        u, v, w = z3.Ints('u v w')
        for x in (u, v, w):
            c.assume(m.present0(x))

        def extract(model):
            case = m.extract(model)
            case['args'] = dict(op=op, u=base.ev_int(model, u),
                                v=base.ev_int(model, v), w=base.ev_int(model, w))
            case['harness'] = 'k6_autoref_ops'
            return case

        F = self.A.Function
        exc = r = None
        try:
            fu, fv, fw = F(SymInt(u), abdd), F(SymInt(v), abdd), F(SymInt(w), abdd)
            if op == '~':
                r = ~fu
            elif op == '&':
                r = fu & fv
            elif op == '|':
                r = fu | fv
            elif op == 'implies':
                r = fu.implies(fv)
            elif op == 'equiv':
                r = fu.equiv(fv)
            elif op == '<=':
                r = bool(fu <= fv)
            elif op == '<':
                r = bool(fu < fv)
            elif op == '==':
                r = bool(fu == fv)
            elif op == '!=':
                r = bool(fu != fv)
            elif op == 'apply_xor':
                r = abdd.apply('xor', fu, fv)
            elif op == 'apply_diff':
                r = abdd.apply('diff', fu, fv)
            elif op == 'ite':
                r = abdd.ite(fu, fv, fw)
        except Exception as e:
            exc = e
        if exc is not None:
            res = base.discharge([Goal('operator_accepts_valid_operands', z3.BoolVal(False))],
                                 [], extract)
            return dict(outcome='raised:' + type(exc).__name__, goals=res)
        a, b, c3 = den.s(u), den.s(v), den.s(w)
        goals = list(world.obligations)
        expect = {}
        if isinstance(r, bool):
            want = {'<=': (~a | b) == den.ones,
                    '<': z3.And((~a | b) == den.ones, a != b),
                    '==': a == b, '!=': a != b}[op]
            goals.append(Goal(f'comparison_{op}_decides_semantics',
                              want if r else z3.Not(want)))
            expect = dict(outcome='returned', result=r)
        else:
            if not isinstance(r, F):
                goals.append(Goal('returns_a_Function', z3.BoolVal(False)))
                rz = z3.IntVal(1)
            else:
                rz = _z(r.node)
            want = {'~': ~a, '&': a & b, '|': a | b, 'implies': ~a | b,
                    'equiv': ~(a ^ b), 'apply_xor': a ^ b, 'apply_diff': a & ~b,
                    'ite': (a & b) | (~a & c3)}[op]
            goals.append(Goal(f'operator_{op}_denotes_connective',
                              z3.And(world.present(rz), den.s(rz) == want)))
        res = base.discharge(goals, [], extract)
        wit = base.witness(extract)
        if wit is not None and not isinstance(r, bool):
            mdl = c.solver.model()
            expect = dict(outcome='returned',
                          result_tt=mdl.eval(den.s(rz), model_completion=True).as_long())
        return dict(outcome='returned:' + op, goals=res, witness=wit, expect=expect)


def replay(case):
    B = concrete.fresh_dd()
    import dd.autoref as A
    L = case['L']
    M = concrete.mask(L)
    case = dict(case)
    case.pop('ref', None)
    bad0 = concrete.check_inv(concrete.install(case), None)
    if bad0:
        return dict(violates=False, invalid_pre=True, detail='pre-state invalid: %s' % bad0[:3])
    bdd = concrete.install(case, B)
    abdd = make_autoref(A, bdd)
    a = case['args']
    op = a['op']
    ta, tb, tc = (concrete.tt(bdd, a[k]) for k in 'uvw')
    exc = r = None
    try:
        fu, fv, fw = (A.Function(a[k], abdd) for k in 'uvw')
        if op == '~':
            r = ~fu
        elif op == '&':
            r = fu & fv
        elif op == '|':
            r = fu | fv
        elif op == 'implies':
            r = fu.implies(fv)
        elif op == 'equiv':
            r = fu.equiv(fv)
        elif op == '<=':
            r = fu <= fv
        elif op == '<':
            r = fu < fv
        elif op == '==':
            r = fu == fv
        elif op == '!=':
            r = fu != fv
        elif op == 'apply_xor':
            r = abdd.apply('xor', fu, fv)
        elif op == 'apply_diff':
            r = abdd.apply('diff', fu, fv)
        elif op == 'ite':
            r = abdd.ite(fu, fv, fw)
    except Exception as e:
        exc = e
    call = f'Function operator {op} on nodes {a["u"]}, {a["v"]}, {a["w"]}'
    obs = dict(outcome='raised:' + type(exc).__name__ if exc else 'returned')
    if exc is not None:
        return dict(violates=True, key='autoref-op/raises', detail=f'{call} raised {exc!r}', observed=obs)
    if op in ('<=', '<', '==', '!='):
        want = {'<=': (~ta | tb) & M == M, '<': ((~ta | tb) & M == M) and ta != tb,
                '==': ta == tb, '!=': ta != tb}[op]
        obs['result'] = bool(r)
        if bool(r) != want:
            return dict(violates=True, key='autoref-op/wrong-comparison',
                        detail=f'{call} returned {r}, semantics say {want}', observed=obs)
        return dict(violates=False, detail='ok', observed=obs)
    if not isinstance(r, A.Function):
        return dict(violates=True, key='autoref-op/not-a-Function', detail=f'{call} returned {r!r}', observed=obs)
    want = {'~': ~ta & M, '&': ta & tb, '|': ta | tb, 'implies': (~ta | tb) & M,
            'equiv': ~(ta ^ tb) & M, 'apply_xor': ta ^ tb, 'apply_diff': ta & ~tb & M,
            'ite': concrete.bv_ite(ta, tb, tc, L)}[op]
    got = concrete.tt(bdd, r.node)
    obs['result_tt'] = got
    if got != want:
        return dict(violates=True, key='autoref-op/wrong-function',
                    detail=f'{call} denotes {got:#x}, expected {want:#x}', observed=obs)
    return dict(violates=False, detail='ok', observed=obs)
