"""K7: the real `BDD.swap(x, x+1)` from an arbitrary valid state with ledger
EXT.  Mode U: swap, collect_garbage, _levels, _low_high, _swap_cofactor,
find_or_add, var_at_level all real.  Truth tables are by level; "same function
of the same named variables" is the table with levels x, x+1 exchanged."""
import warnings

import z3

from .. import engine, base, concrete, hcont, oracle
from ..engine import SymInt, _z
from ..mgr import SymMgr
from ..state import Den
from ..base import Goal

FUNCTIONS = ['dd.bdd.BDD.swap', 'dd.bdd.BDD._levels', 'dd.bdd.BDD._low_high',
             'dd.bdd.BDD._swap_cofactor', 'dd.bdd.BDD.find_or_add',
             'dd.bdd.BDD.collect_garbage', 'dd.bdd.BDD.var_at_level',
             'dd.bdd.BDD.incref', 'dd.bdd.BDD.decref']


class Harness:
    name = 'K7.swap'
    mode = 'U'

    def __init__(self, N=4, L=2, x=0, K=2, nondet=False, by='level', handle=False):
        self.N, self.L, self.x, self.K, self.nondet, self.by = N, L, x, K, nondet, by
        self.handle = handle

    def install(self):
        self.B = base.import_dd('dd.bdd')
        self.sh = base.Shadow()
        base.std_shadows(self.sh, self.B,
                         hset=hcont.HSet if self.nondet else hcont.HSetDet)
        self.wrec = base.WarnRec()
        self.sh.set(self.B, 'warnings', self.wrec)

    def run(self):
        c = engine.CTX
        N, L, X = self.N, self.L, self.x
        m = SymMgr(N, self.K, L, with_cache=True, cache_model='assoc', cache_entries=1)
        m.assume_pre()
        bdd = m.install(self.B)
        st0, st, den, ext = m.st0, m.st, m.den, m.ext
        self.wrec.msgs = []
        names = m.names

        def extract(model):
            case = m.extract(model)
            case['args'] = dict(x=X, by=self.by, hnode=base.ev_int(model, hnode))
            case['harness'] = 'k7_swap'
            return case

        # a live dd.autoref handle on a held node, whose views were read
        # before the swap (C08: live Functions stay valid through reorderings)
        A = base.import_dd('dd.autoref')
        hnode = z3.Int('hnode')
        # the dd.autoref wrapper of this manager, built the way autoref.BDD.__init__ builds it
        abdd = base.make_autoref(A, bdd)
        if self.handle:
            c.assume(z3.And(hnode >= 2, hnode <= N, z3.Select(st0.P, hnode), z3.Select(ext, hnode) > 0))
            fh = A.Function.__new__(A.Function)
            fh.node, fh.bdd, fh.manager = SymInt(hnode), abdd, bdd      # its reference is part of EXT
            views_before = (fh.var, int(fh.level), bool(fh.negated))
        else:
            c.assume(hnode == 0)
        exc = ret = None
        try:
            if self.by == 'level':
                ret = bdd.swap(X, X + 1)
            elif self.by == 'name':
                ret = bdd.swap(names[X], names[X + 1])
            else:   # reversed arguments
                ret = bdd.swap(X + 1, X)
        except Exception as e:
            exc = e
        m.read_post()
        if exc is not None:
            res = base.discharge([Goal('swap_never_raises', z3.BoolVal(False))], [], extract)
            return dict(outcome='raised:' + type(exc).__name__, goals=res)
        den2 = Den(L, '2')
        ax = den2.axioms(st, m.ids2)
        keep = []
        for k in m.ids:
            held = z3.And(z3.Select(st0.P, k), z3.Select(ext, k) > 0)
            keep.append(z3.Implies(held, z3.And(
                z3.Select(st.P, k),
                z3.Select(den2.D, k) == oracle.bv_swap_adjacent(den, z3.Select(den.D, k), X))))
        want_vars = {nm: i for i, nm in enumerate(names)}
        want_vars[names[X]], want_vars[names[X + 1]] = X + 1, X
        ok_vars = (dict(bdd.vars) == want_vars and
                   dict(bdd._level_to_var) == {i: nm for nm, i in want_vars.items()})
        ok_wrapper = (dict(abdd.vars) == want_vars and dict(abdd.var_levels) == want_vars
                      and all(abdd.level_of_var(nm) == i and abdd.var_at_level(i) == nm
                              for nm, i in want_vars.items()))
        old_n, new_n = ret
        handle_ok = True
        if self.handle:
            fresh = A.Function.__new__(A.Function)
            fresh.node, fresh.bdd, fresh.manager = SymInt(hnode), abdd, bdd
            lv_after = int(fh.level)
            handle_ok = (fh.var == fresh.var == bdd._level_to_var[lv_after]
                         and int(fresh.level) == lv_after)
            fh.node = fresh.node = None          # no decref on disposal: the harness owns no count
        goals = [
            Goal('live_handle_views_follow_the_new_order', z3.BoolVal(handle_ok)),
            Goal('held_nodes_keep_number_and_function', z3.And(keep)),
            Goal('reduced_ordered', m.g_inv_struct()),
            Goal('unique_table_sound', m.g_pred_sound()),
            Goal('counts_exact_same_ledger', m.g_refs()),
            Goal('order_maps_exchanged', z3.BoolVal(ok_vars)),
            Goal('autoref_wrapper_sees_the_new_order', z3.BoolVal(ok_wrapper)),
            Goal('cache_names_no_freed_node', m.g_cache_sound()),
            Goal('no_decref_warning', z3.BoolVal(not self.wrec.msgs)),
            Goal('returned_new_size', _z(new_n) == m.succ.symlen(), kind='aux'),
            Goal('min_free', m.g_minfree(), kind='aux'),
        ]
        res = base.discharge(goals, ax, extract)
        wit = base.witness(extract)
        expect = {}
        if wit is not None:
            mdl = c.solver.model()
            expect = dict(outcome='returned', remaining=sorted(
                k for k in m.ids2 if base.ev_bool(mdl, z3.Select(st.P, k))))
        return dict(outcome='swapped', goals=res, witness=wit, expect=expect)


def replay(case):
    B = concrete.fresh_dd()
    ext = concrete.ext_of(case)
    bad0 = concrete.check_inv(concrete.install(case), ext)
    if bad0:
        return dict(violates=False, invalid_pre=True, detail=str(bad0[:3]))
    bdd = concrete.install(case, B)
    names = case['names']
    x = case['args']['x']
    by = case['args'].get('by', 'level')
    held = [k for k, e in ext.items() if e > 0 and k in bdd._succ]
    tts = {k: concrete.tt_named(bdd, k, names) for k in held}
    import dd.autoref as A
    hnode = case['args'].get('hnode')
    fh = None
    abdd = base.make_autoref(A, bdd)
    if hnode in held:
        fh = A.Function.__new__(A.Function)
        fh.node, fh.bdd, fh.manager = hnode, abdd, bdd
        fh.var, fh.level, fh.negated
    exc = None
    with warnings.catch_warnings(record=True) as wl:
        warnings.simplefilter('always')
        try:
            if by == 'level':
                bdd.swap(x, x + 1)
            elif by == 'name':
                bdd.swap(names[x], names[x + 1])
            else:
                bdd.swap(x + 1, x)
        except Exception as e:
            exc = e
    call = f'swap({x}, {x + 1})'
    obs = dict(outcome='raised:' + type(exc).__name__ if exc else 'returned',
               remaining=sorted(bdd._succ))
    if exc is not None:
        return dict(violates=True, key='swap/raises', detail=f'{call} raised {exc!r}', observed=obs)
    bad = [b for b in concrete.check_inv(bdd, None) if b.startswith('I7')]
    if bad:
        return dict(violates=True, key='swap/order-maps', detail=f'{call}: {bad[0]}', observed=obs)
    if bdd.vars[names[x]] != x + 1 or bdd.vars[names[x + 1]] != x:
        return dict(violates=True, key='swap/order-not-exchanged', detail=f'{call}: vars {bdd.vars}', observed=obs)
    if dict(abdd.vars) != dict(bdd.vars) or dict(abdd.var_levels) != dict(bdd.vars):
        return dict(violates=True, key='swap/autoref-vars-stale',
                    detail=f'{call}: dd.autoref.BDD.vars of the wrapper says {dict(abdd.vars)}, '
                           f'the manager says {dict(bdd.vars)}', observed=obs)
    for k in held:
        if k not in bdd._succ:
            return dict(violates=True, key='swap/frees-held-node',
                        detail=f'{call} deleted externally referenced node {k}', observed=obs)
        if concrete.tt_named(bdd, k, names) != tts[k]:
            return dict(violates=True, key='swap/changes-function',
                        detail=f'{call}: held node {k} denotes another function', observed=obs)
    if fh is not None:
        lv = bdd._succ[hnode][0]
        got = (fh.var, fh.level)
        fh.node = None
        if got != (bdd._level_to_var[lv], lv):
            return dict(violates=True, key='swap/live-handle-stale-view',
                        detail=f'{call}: a Function on node {hnode} created before the swap reports var/level {got}, '
                               f'the manager says {(bdd._level_to_var[lv], lv)}', observed=obs)
    if wl:
        return dict(violates=True, key='swap/decref-warning', detail=f'{call}: {wl[0].message}', observed=obs)
    bad = concrete.check_inv(bdd, ext)
    if bad:
        return dict(violates=True, key='swap/invariant:' + bad[0].split()[0],
                    detail=f'{call}: ' + '; '.join(bad[:3]), observed=obs)
    return dict(violates=False, detail='ok', observed=obs)
