"""K8: the real `BDD.collect_garbage()` / `collect_garbage(roots)` from an
arbitrary valid state with an arbitrary ledger EXT of external references.
Mode U.  The order in which the set of unused nodes is drained (`set.pop`) is
a nondeterministic choice when `nondet` is set."""
import warnings

import z3

from .. import engine, base, concrete, hcont
from ..engine import SymInt, _z
from ..mgr import SymMgr
from ..base import Goal

FUNCTIONS = ['dd.bdd.BDD.collect_garbage', 'dd.bdd.BDD.decref', 'dd.bdd.BDD.__len__']


class Harness:
    name = 'K8.collect_garbage'
    mode = 'U'

    def __init__(self, N=4, L=2, roots=0, nondet=True, ce=1, shutdown=False):
        self.N, self.L, self.roots, self.nondet, self.ce = N, L, roots, nondet, ce
        self.shutdown = shutdown        # the manager's shutdown check `BDD.__del__` (C08)

    def install(self):
        self.B = base.import_dd('dd.bdd')
        self.sh = base.Shadow()
        base.std_shadows(self.sh, self.B,
                         hset=hcont.HSet if self.nondet else hcont.HSetDet)
        self.wrec = base.WarnRec()
        self.sh.set(self.B, 'warnings', self.wrec)

    def run(self):
        c = engine.CTX
        N, L = self.N, self.L
        m = SymMgr(N, 0, L, with_cache=True, cache_model='assoc', cache_entries=self.ce)
        m.assume_pre()
        bdd = m.install(self.B)
        st0, st, ext = m.st0, m.st, m.ext
        self.wrec.msgs = []
        rts = []
        for j in range(max(self.roots, 0)):
            r = z3.Int(f'root{j}')
            c.assume(m.present0(r))
            rts.append(r)

        def extract(model):
            case = m.extract(model)
            case['args'] = dict(roots=[] if self.roots == -1 else [base.ev_int(model, r) for r in rts] if self.roots else None,
                                shutdown=self.shutdown)
            case['harness'] = 'k8_gc'
            return case

        if self.shutdown:
            # all handles are gone: only the terminal's own reference is left
            c.assume(z3.Select(ext, 1) == 1)
            for k in m.ids[1:]:
                c.assume(z3.Select(ext, k) == 0)
        exc = None
        try:
            if self.shutdown:
                self.B.BDD.__del__(bdd)
            elif self.roots == -1:
                bdd.collect_garbage([])          # a rooted collection with no candidates: nothing may go
            elif self.roots:
                bdd.collect_garbage([SymInt(r) for r in rts])
            else:
                bdd.collect_garbage()
        except Exception as e:
            exc = e
        m.read_post()
        if exc is not None:
            res = base.discharge([Goal('shutdown_check_passes' if self.shutdown else 'collection_never_raises',
                                       z3.BoolVal(False))], [], extract)
            return dict(outcome='raised:' + type(exc).__name__, goals=res)
        if self.shutdown:
            goals = [Goal('only_the_terminal_remains', z3.And(
                [z3.Not(z3.Select(st.P, k)) for k in m.ids[1:]] + [z3.Select(st.P, 1)])),
                Goal('no_decref_warning', z3.BoolVal(not self.wrec.msgs))]
            res = base.discharge(goals, [], extract)
            return dict(outcome='shutdown', goals=res, witness=base.witness(extract),
                        expect=dict(outcome='returned', remaining=[1]))
        keep, unchanged, live = [], [], []
        for k in m.ids:
            p0, p1 = z3.Select(st0.P, k), z3.Select(st.P, k)
            keep.append(z3.Implies(z3.And(p0, z3.Select(ext, k) > 0), p1))
            unchanged.append(z3.Implies(p1, z3.And(
                p0, z3.Select(st.LV, k) == z3.Select(st0.LV, k),
                z3.Select(st.LO, k) == z3.Select(st0.LO, k),
                z3.Select(st.HI, k) == z3.Select(st0.HI, k))))
            if k > 1:
                live.append(z3.Implies(p1, z3.Select(st.RF, k) > 0))
        goals = [
            Goal('referenced_nodes_survive', z3.And(keep)),
            Goal('survivors_unchanged', z3.And(unchanged)),
            Goal('children_of_survivors_survive', m.g_inv_struct()),
            Goal('counts_exact_same_ledger', m.g_refs()),
            Goal('unique_table_sound', m.g_pred_sound()),
            Goal('cache_names_no_freed_node', m.g_cache_sound()),
            Goal('no_decref_warning', z3.BoolVal(not self.wrec.msgs)),
            Goal('min_free', m.g_minfree(), kind='aux'),
        ]
        if not self.roots:
            goals.append(Goal('only_referenced_or_needed_nodes_remain', z3.And(live)))
        if self.roots == -1:
            goals.append(Goal('empty_rooted_collection_frees_nothing', z3.And(
                [z3.Select(st.P, k) == z3.Select(st0.P, k) for k in m.ids])))
        res = base.discharge(goals, [], extract)
        outcome = 'collected' if st.P is not st0.P else 'nothing_to_collect'
        wit = base.witness(extract)
        expect = {}
        if wit is not None:
            mdl = c.solver.model()
            expect = dict(outcome='returned', remaining=sorted(
                k for k in m.ids if base.ev_bool(mdl, z3.Select(st.P, k))))
        return dict(outcome=outcome, goals=res, witness=wit, expect=expect)


def reachable(succ, starts):
    seen = set()
    stack = [abs(s) for s in starts]
    while stack:
        k = stack.pop()
        if k in seen:
            continue
        seen.add(k)
        lv, lo, hi = succ[k]
        if lo is not None:
            stack += [abs(lo), abs(hi)]
    return seen


def replay(case):
    B = concrete.fresh_dd()
    ext = concrete.ext_of(case)
    bad0 = concrete.check_inv(concrete.install(case), ext)
    if bad0:
        return dict(violates=False, invalid_pre=True, detail=str(bad0[:3]))
    bdd = concrete.install(case, B)
    roots = case['args']['roots']
    if case['args'].get('shutdown'):
        try:
            B.BDD.__del__(bdd)
        except Exception as e:
            return dict(violates=True, key='shutdown/check-fails',
                        detail=f'BDD.__del__ with no external references raised {type(e).__name__}',
                        observed=dict(outcome='raised'))
        if set(bdd._succ) != {1}:
            return dict(violates=True, key='shutdown/nodes-remain', detail=str(sorted(bdd._succ)),
                        observed=dict(outcome='returned', remaining=sorted(bdd._succ)))
        return dict(violates=False, detail='ok', observed=dict(outcome='returned', remaining=[1]))
    old = dict(bdd._succ)
    held = [k for k, e in ext.items() if e > 0 and k in old]
    must = reachable(old, held + [1])
    tts = {k: concrete.tt(bdd, k) for k in must}
    exc = None
    with warnings.catch_warnings(record=True) as wl:
        warnings.simplefilter('always')
        try:
            if roots is None:
                bdd.collect_garbage()
            else:
                bdd.collect_garbage(roots)
        except Exception as e:
            exc = e
    call = f'collect_garbage({"" if roots is None else roots})'
    obs = dict(outcome='raised:' + type(exc).__name__ if exc else 'returned',
               remaining=sorted(bdd._succ))
    if exc is not None:
        return dict(violates=True, key='gc/raises', detail=f'{call} raised {exc!r}', observed=obs)
    now = set(bdd._succ)
    lost = must - now
    if lost:
        return dict(violates=True, key='gc/frees-reachable-node',
                    detail=f'{call} deleted nodes {sorted(lost)} reachable from referenced nodes {held}',
                    observed=obs)
    for k in must:
        if concrete.tt(bdd, k) != tts[k]:
            return dict(violates=True, key='gc/changes-function', detail=f'{call}: node {k} changed', observed=obs)
    if roots == [] and now != set(old):
        return dict(violates=True, key='gc/empty-rooted-collection-frees-nodes',
                    detail=f'collect_garbage([]) (no candidates) deleted nodes {sorted(set(old) - now)}', observed=obs)
    if roots is None and now != must:
        return dict(violates=True, key='gc/leaves-unreachable-node',
                    detail=f'{call} left unreachable nodes {sorted(now - must)}', observed=obs)
    if wl:
        return dict(violates=True, key='gc/decref-warning', detail=f'{call}: {wl[0].message}', observed=obs)
    bad = concrete.check_inv(bdd, ext)
    if bad:
        return dict(violates=True, key='gc/invariant:' + bad[0].split()[0],
                    detail=f'{call}: ' + '; '.join(bad[:3]), observed=obs)
    return dict(violates=False, detail='ok', observed=obs)
