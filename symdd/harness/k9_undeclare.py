"""K9: the real `BDD.undeclare_vars(*vrs)` from an arbitrary valid state (some
levels empty), every subset of names.  Mode U.  The method rebuilds `_succ`
and `_pred` with dict comprehensions; so that their keys stay symbolic the
module is executed through the literal-lifting loader (hcont.Lift) applied
to the *current* source; the concrete replays run the unmodified module."""
import itertools
import os

import z3

from .. import engine, base, concrete, oracle, hcont
from ..engine import SymInt, _z
from ..mgr import SymMgr
from ..state import Den, inv_struct, state_equal, present
from ..base import Goal

FUNCTIONS = ['dd.bdd.BDD.undeclare_vars', 'dd.bdd.BDD.level_of_var']
CUTS = ['dict/set displays of dd/bdd.py lifted to HDict/HSet by an AST transformer (validated by concrete replay on the unlifted module)']


class Harness:
    name = 'K9.undeclare_vars'
    mode = 'U'

    def __init__(self, N=4, L=3):
        self.N, self.L = N, L

    def install(self):
        real = base.import_dd('dd.bdd')
        self.B = hcont.load_lifted('dd_bdd_lifted', real.__file__, register=False,
                                   extra=dict(__name__='dd.bdd'))
        self.sh = base.Shadow()
        base.std_shadows(self.sh, self.B)

    def run(self):
        c = engine.CTX
        N, L = self.N, self.L
        names = [chr(97 + i) for i in range(L)]
        subs = [None] + [list(s) for k in range(1, L + 1)
                         for s in itertools.combinations(range(L), k)] + ['unknown']
        sel = subs[c.choose(len(subs), 'vrs')]
        m = SymMgr(N, 0, L, with_cache=True)
        m.decl = 'choose'
        m.assume_pre()
        bdd = m.install(self.B)
        st0, st, den, ext = m.st0, m.st, m.den, m.ext
        vars0 = dict(bdd.vars)

        def extract(model):
            case = m.extract(model)
            case['args'] = dict(sel=sel)
            case['harness'] = 'k9_undeclare'
            return case

        used = [z3.Or([z3.And(z3.Select(st0.P, k), z3.Select(st0.LV, k) == i)
                       for k in m.ids[1:]]) for i in range(L)]
        exc = ret = None
        try:
            if sel is None:
                ret = bdd.undeclare_vars()
            elif sel == 'unknown':
                ret = bdd.undeclare_vars(names[0], 'nosuchvar')
            else:
                ret = bdd.undeclare_vars(*[names[i] for i in sel])
        except ValueError as e:
            exc = e
        except Exception as e:
            exc = e
        m.read_post()
        goals = []
        if exc is not None:
            if sel == 'unknown':
                legit = z3.BoolVal(True)
            elif sel is None:
                legit = z3.BoolVal(False)
            else:
                legit = z3.Or([used[i] for i in sel])
            goals.append(Goal('refusal_justified',
                              legit if isinstance(exc, ValueError) else z3.BoolVal(False)))
            goals.append(Goal('refusal_leaves_manager', z3.BoolVal(
                dict(bdd.vars) == vars0 and bdd._succ is m.succ and bdd._pred is m.pred
                and bdd._ite_table is m.itab)))
            goals.append(Goal('refusal_leaves_tables', state_equal(st0, st, m.ids)))
            res = base.discharge(goals, [], extract)
            return dict(outcome='refused', goals=res, witness=base.witness(extract),
                        expect=dict(outcome='raised:' + type(exc).__name__))
        # which variables went away (concrete on this path)
        newvars = {k: int(v) for k, v in bdd.vars.items()}
        removed = sorted(n for n in names if n not in newvars)
        L2 = len(newvars)
        if sel is None:
            for i in range(L):
                goals.append(Goal(f'removed_{i}_iff_unused',
                                  used[i] if names[i] in newvars else z3.Not(used[i])))
        else:
            goals.append(Goal('removed_exactly_requested',
                              z3.BoolVal(removed == sorted(names[i] for i in sel))))
            goals.append(Goal('requested_were_unused', z3.Not(z3.Or([used[i] for i in sel]))))
        goals.append(Goal('returned_removed_set', z3.BoolVal(sorted(ret) == removed)))
        kept = [n for n in names if n in newvars]
        goals.append(Goal('levels_compacted_keeping_order', z3.BoolVal(
            [newvars[n] for n in kept] == list(range(L2)))))
        l2v = {int(k): v for k, v in bdd._level_to_var.items()}
        goals.append(Goal('level_maps_inverse', z3.BoolVal(
            l2v == {v: k for k, v in newvars.items()})))
        # nodes: same numbers, children; levels remapped
        old2new = {vars0[n]: newvars[n] for n in kept}
        old2new[L] = L2
        same = []
        for k in m.ids:
            same.append(z3.Select(st.P, k) == z3.Select(st0.P, k))
            lv0 = z3.Select(st0.LV, k)
            mapped = z3.IntVal(-1)
            for o, nw in old2new.items():
                mapped = z3.If(lv0 == o, z3.IntVal(nw), mapped)
            same.append(z3.Implies(z3.Select(st0.P, k), z3.Select(st.LV, k) == mapped))
            if k > 1:
                same.append(z3.Implies(z3.Select(st0.P, k), z3.And(
                    z3.Select(st.LO, k) == z3.Select(st0.LO, k),
                    z3.Select(st.HI, k) == z3.Select(st0.HI, k))))
        goals.append(Goal('nodes_kept_levels_remapped', z3.And(same)))
        goals.append(Goal('reduced_ordered', z3.And(inv_struct(st, m.ids, L2, with_pred=False))))
        goals.append(Goal('unique_table_sound', m.g_pred_sound()))
        goals.append(Goal('unique_table_complete', m.g_pred_complete()))
        goals.append(Goal('counts_exact', m.g_refs()))
        goals.append(Goal('cache_names_only_valid_results', m.g_cache_sound()))
        res = base.discharge(goals, [], extract)
        # by-name denotation (only when a variable remains; width 2^L2)
        if L2 >= 1:
            den2 = Den(L2, '2')
            ax = den2.axioms(st, m.ids)
            perm = [vars0[n] for n in kept]      # new level j -> old level perm[j]
            keep = [z3.Implies(z3.Select(st0.P, k),
                               z3.Select(den.D, k) == oracle.bv_embed(z3.Select(den2.D, k), L2, L, perm))
                    for k in m.ids]
            res += base.discharge([Goal('functions_unchanged_by_name', z3.And(keep))], ax, extract)
        wit = base.witness(extract)
        return dict(outcome='removed' if removed else 'nothing_removed', goals=res, witness=wit,
                    expect=dict(outcome='returned', vars=newvars))


def replay(case):
    B = concrete.fresh_dd()
    ext = concrete.ext_of(case)
    bad0 = concrete.check_inv(concrete.install(case), ext)
    if bad0:
        return dict(violates=False, invalid_pre=True, detail=str(bad0[:3]))
    bdd = concrete.install(case, B)
    names = case['names']
    L = case['L']
    sel = case['args']['sel']
    vars0 = dict(bdd.vars)
    before = concrete.snapshot(bdd)
    used = {lv for k, (lv, lo, hi) in bdd._succ.items() if lo is not None}
    tts = {k: concrete.tt_named(bdd, k, names) for k in bdd._succ}
    exc = ret = None
    try:
        if sel is None:
            ret = bdd.undeclare_vars()
        elif sel == 'unknown':
            ret = bdd.undeclare_vars(names[0], 'nosuchvar')
        else:
            ret = bdd.undeclare_vars(*[names[i] for i in sel])
    except Exception as e:
        exc = e
    call = f'undeclare_vars({sel})'
    obs = dict(outcome='raised:' + type(exc).__name__ if exc else 'returned', vars=dict(bdd.vars))
    if exc is not None:
        legit = sel == 'unknown' or (sel is not None and any(i in used for i in sel))
        if not legit or not isinstance(exc, ValueError):
            return dict(violates=True, key='undeclare/refuses-valid', detail=f'{call} raised {exc!r}', observed=obs)
        if concrete.snapshot(bdd) != before:
            return dict(violates=True, key='undeclare/refusal-mutates', detail=call, observed=obs)
        return dict(violates=False, detail='refused', observed=obs)
    if sel == 'unknown' or (sel is not None and any(i in used for i in sel)):
        return dict(violates=True, key='undeclare/accepts-used-or-unknown', detail=call, observed=obs)
    want_removed = ({names[i] for i in range(L) if i not in used} if sel is None
                    else {names[i] for i in sel})
    removed = set(vars0) - set(bdd.vars)
    if removed != want_removed or set(ret) != want_removed:
        return dict(violates=True, key='undeclare/wrong-set',
                    detail=f'{call} removed {sorted(removed)} returned {sorted(ret)}, expected {sorted(want_removed)}', observed=obs)
    kept = [n for n in names if n in bdd.vars]
    if [bdd.vars[n] for n in kept] != list(range(len(kept))):
        return dict(violates=True, key='undeclare/levels-not-compacted', detail=f'{call}: {bdd.vars}', observed=obs)
    for k, t in tts.items():
        if k not in bdd._succ:
            return dict(violates=True, key='undeclare/loses-node', detail=f'{call}: node {k}', observed=obs)
        # compare by name over the kept names (removed ones were not in any support)
        t2 = concrete.tt_named(bdd, k, kept)
        for asg in range(2 ** L):
            b = 0
            for j, n in enumerate(kept):
                if (asg >> names.index(n)) & 1:
                    b |= 1 << j
            if ((t >> asg) & 1) != ((t2 >> b) & 1):
                return dict(violates=True, key='undeclare/changes-function', detail=f'{call}: node {k}', observed=obs)
    bad = concrete.check_inv(bdd, ext)
    if bad:
        return dict(violates=True, key='undeclare/invariant:' + bad[0].split()[0],
                    detail=f'{call}: ' + '; '.join(bad[:3]), observed=obs)
    return dict(violates=False, detail='ok', observed=obs)
