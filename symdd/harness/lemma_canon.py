"""Canonicity lemma (DESIGN.md 4.4): a pure SMT obligation on the invariant,
no code of dd is executed.  For every state with I1-I3 and present signed
references a, b: den(a) = den(b) => a = b; and every node's function is true
under the all-true assignment (sign normal form).  These are the facts the
contract stubs assume about results (stubs.py) and what links "same
denotation" (all other checks) to "same reference" (what the user compares).
"""
import z3

from .. import engine, base, concrete
from ..mgr import SymMgr
from ..base import Goal

FUNCTIONS = []


class Harness:
    name = 'lemma.canonicity'
    mode = 'lemma'

    def __init__(self, N=5, L=3):
        self.N, self.L = N, L

    def install(self):
        pass

    def run(self):
        c = engine.CTX
        m = SymMgr(self.N, 0, self.L, with_cache=False, with_refs=False)
        for a in m.pre_axioms():
            c.assume(a)
        den = m.den
        a, b = z3.Ints('a b')
        c.assume(m.present0(a))
        c.assume(m.present0(b))

        def extract(model):
            case = m.extract(model)
            case['args'] = dict(a=base.ev_int(model, a), b=base.ev_int(model, b))
            case['harness'] = 'lemma_canon'
            return case

        W = den.W
        goals = [
            Goal('equal_function_equal_reference',
                 z3.Implies(den.s(a) == den.s(b), a == b)),
            Goal('regular_iff_true_under_all_true',
                 (a > 0) == (z3.Extract(W - 1, W - 1, den.s(a)) == 1)),
        ]
        res = base.discharge(goals, [], extract)
        return dict(outcome='lemma', goals=res, witness=base.witness(extract), expect={})


def replay(case):
    """A model would be a valid reduced ordered diagram with two different
    references for one function: check it concretely."""
    bad0 = concrete.check_inv(concrete.install(case), None)
    if bad0:
        return dict(violates=False, invalid_pre=True, detail=str(bad0[:3]))
    bdd = concrete.install(case)
    a = case['args']
    ta, tb = concrete.tt(bdd, a['a']), concrete.tt(bdd, a['b'])
    if ta == tb and a['a'] != a['b']:
        return dict(violates=False, detail='lemma refuted by a concrete valid state?! (harness error)')
    return dict(violates=False, detail='ok', observed={})
