"""C04: the real `BDD.let` dispatch, `cofactor/_cofactor`, `compose/_compose/
_vector_compose`, `rename` (module-level `rename` -> `_copy_bdd` within one
manager) over an arbitrary valid manager; `ite` / `find_or_add` are contract
stubs.  The operand and the replacement functions / Boolean values are
symbolic; which variables are substituted, and the variable-to-variable map,
are iterated."""
import itertools

import z3

from .. import engine, base, concrete, oracle
from ..engine import SymInt, SymBool, _z
from ..mgr import SymMgr
from ..stubs import StubWorld, assume_canon_real
from ..base import Goal

FUNCTIONS = ['dd.bdd.BDD.let', 'dd.bdd.BDD.cofactor', 'dd.bdd.BDD._cofactor',
             'dd.bdd.BDD.compose', 'dd.bdd.BDD._compose', 'dd.bdd.BDD._vector_compose',
             'dd.bdd.BDD.rename', 'dd.bdd.rename', 'dd.bdd._copy_bdd',
             'dd.bdd.BDD._map_to_level', 'dd.bdd.BDD._top_cofactor',
             'dd.bdd.BDD.level_of_var']
STUBS = ['BDD.ite -> contract (K3/K4)', 'BDD.find_or_add -> contract (K1)']

KINDS = ['cofactor', 'compose1', 'compose2', 'rename', 'empty']


def rename_maps(L):
    """all maps level -> level given by their non-identity part, plus one
    with an explicit identity entry"""
    out = []
    for img in itertools.product(range(L), repeat=L):
        d = {i: j for i, j in enumerate(img) if i != j}
        if d:
            out.append(d)
    out.append({0: 0})
    return out


class Harness:
    name = 'C04.let'
    mode = 'M'

    def __init__(self, N=4, L=2, kinds=None, via=('bdd',)):
        self.N, self.L = N, L
        self.kinds = kinds or KINDS
        self.via = list(via)

    def install(self):
        self.B = base.import_dd('dd.bdd')
        self.A = base.import_dd('dd.autoref')
        self.sh = base.Shadow()
        base.std_shadows(self.sh, self.B)

    def run(self):
        c = engine.CTX
        N, L = self.N, self.L
        kind = self.kinds[c.choose(len(self.kinds), 'kind')]
        via = self.via[c.choose(len(self.via), 'via')]
        m = SymMgr(N, 0, L, with_cache=False, with_refs=False)
        m.decl = 'choose' if kind == 'rename' else 'identity'
        m.assume_pre()
        assume_canon_real(m)
        if via == 'autoref':
            for k in m.ids:
                c.assume(z3.Select(m.st0.RP, k) == z3.Select(m.st0.P, k))
                c.assume(z3.Select(m.st0.RF, k) >= 0)
        bdd = m.install(self.B)
        world = StubWorld(m)
        world.install(bdd)
        den = m.den
        names = m.names
        u = z3.Int('u')
        c.assume(m.present0(u))
        f = den.s(u)
        sel = None
        gs = []
        bs = []
        if kind == 'cofactor':
            subs = [s for k in range(1, L + 1) for s in itertools.combinations(range(L), k)]
            sel = list(subs[c.choose(len(subs), 'vars')])
            bs = [z3.Bool(f'b{i}') for i in sel]
            d = {names[i]: SymBool(b) for i, b in zip(sel, bs)}
            want = f
            for i, b in zip(sel, bs):
                want = z3.If(b, oracle.bv_cof(den, want, i, 1), oracle.bv_cof(den, want, i, 0))
        elif kind in ('compose1', 'compose2'):
            k = 1 if kind == 'compose1' else 2
            subs = list(itertools.combinations(range(L), k))
            if not subs:
                raise engine.Abort()
            sel = list(subs[c.choose(len(subs), 'vars')])
            gs = [z3.Int(f'g{i}') for i in sel]
            for g in gs:
                c.assume(m.present0(g))
            d = {names[i]: SymInt(g) for i, g in zip(sel, gs)}
            want = oracle.bv_subst_many(den, f, {i: den.s(g) for i, g in zip(sel, gs)})
        elif kind == 'rename':
            maps = rename_maps(L)
            sel = maps[c.choose(len(maps), 'map')]
            d = {names[i]: names[j] for i, j in sel.items()}
            want = oracle.bv_subst_many(den, f, {i: den.var(j) for i, j in sel.items()})
            sel = {str(i): j for i, j in sel.items()}
        else:
            d = {}
            want = f

        def extract(model):
            case = m.extract(model)
            case['args'] = dict(kind=kind, sel=sel, via=via, u=base.ev_int(model, u),
                                gs=[base.ev_int(model, g) for g in gs],
                                bs=[base.ev_bool(model, b) for b in bs])
            case['harness'] = 'let'
            return case

        exc = r = None
        try:
            if via == 'bdd':
                r = bdd.let(d, SymInt(u))
            else:
                from .k6_autoref_ops import make_autoref
                abdd = make_autoref(self.A, bdd)
                F = self.A.Function
                d2 = {k: (F(x, abdd) if isinstance(x, SymInt) else (bool(x) if isinstance(x, SymBool) else x))
                      for k, x in d.items()}
                r = abdd.let(d2, F(SymInt(u), abdd)).node
        except Exception as e:
            exc = e
        if exc is not None:
            res = base.discharge([Goal('accepts_valid_arguments', z3.BoolVal(False))], [], extract)
            return dict(outcome='raised:' + type(exc).__name__, goals=res)
        rz = _z(r)
        goals = list(world.obligations)
        goals.append(Goal('result_is_substitution',
                          z3.And(world.present(rz), den.s(rz) == want)))
        res = base.discharge(goals, [], extract)
        wit = base.witness(extract)
        mdl = c.solver.model()
        expect = dict(outcome='returned',
                      result_tt=mdl.eval(den.s(rz), model_completion=True).as_long())
        return dict(outcome='returned:' + kind, goals=res, witness=wit, expect=expect)


def int_subst_many(f, sub, L):
    """simultaneous substitution on int truth tables: sub level -> table"""
    out = 0
    for a in range(2 ** L):
        b = a
        for i, g in sub.items():
            if (g >> a) & 1:
                b |= 1 << i
            else:
                b &= ~(1 << i)
        if (f >> b) & 1:
            out |= 1 << a
    return out


def replay(case):
    B = concrete.fresh_dd()
    L = case['L']
    case = dict(case)
    case.pop('ref', None)
    bad0 = concrete.check_inv(concrete.install(case), None)
    if bad0:
        return dict(violates=False, invalid_pre=True, detail=str(bad0[:3]))
    bdd = concrete.install(case, B)
    a = case['args']
    names = case['names']
    kind, sel = a['kind'], a['sel']
    f = concrete.tt(bdd, a['u'])
    M = concrete.mask(L)
    if kind == 'cofactor':
        d = {names[i]: b for i, b in zip(sel, a['bs'])}
        sub = {i: (M if b else 0) for i, b in zip(sel, a['bs'])}
    elif kind in ('compose1', 'compose2'):
        d = {names[i]: g for i, g in zip(sel, a['gs'])}
        sub = {i: concrete.tt(bdd, g) for i, g in zip(sel, a['gs'])}
    elif kind == 'rename':
        d = {names[int(i)]: names[j] for i, j in sel.items()}
        sub = {int(i): concrete.var_tt(j, L) for i, j in sel.items()}
    else:
        d, sub = {}, {}
    want = int_subst_many(f, sub, L)
    old = {k: concrete.tt(bdd, k) for k in bdd._succ}
    exc = r = None
    try:
        if a.get('via', 'bdd') == 'bdd':
            r = bdd.let(d, a['u'])
        else:
            import dd.autoref as A
            from .k6_autoref_ops import make_autoref
            abdd = make_autoref(A, bdd)
            for k in bdd._succ:
                bdd._ref[k] += 1
            d2 = {k: (A.Function(x, abdd) if kind in ('compose1', 'compose2') else x) for k, x in d.items()}
            r = abdd.let(d2, A.Function(a['u'], abdd)).node
    except Exception as e:
        exc = e
    call = f'{a.get("via", "bdd")}.let({d}, {a["u"]})'
    obs = dict(outcome='raised:' + type(exc).__name__ if exc else 'returned', result=r)
    if exc is not None:
        return dict(violates=True, key='let/raises', detail=f'{call} raised {exc!r}', observed=obs)
    if abs(r) not in bdd._succ:
        return dict(violates=True, key='let/result-absent', detail=call, observed=obs)
    got = concrete.tt(bdd, r)
    obs['result_tt'] = got
    if got != want:
        return dict(violates=True, key='let/wrong-function',
                    detail=f'{call} -> {r} denotes {got:#x}, expected {want:#x} (operand {f:#x})',
                    observed=obs)
    for k, t in old.items():
        if k not in bdd._succ or concrete.tt(bdd, k) != t:
            return dict(violates=True, key='let/old-node-changed', detail=f'{call}: node {k}', observed=obs)
    bad = concrete.check_inv(bdd, None)
    if bad:
        return dict(violates=True, key='let/invariant:' + bad[0].split()[0],
                    detail=f'{call}: ' + '; '.join(bad[:3]), observed=obs)
    return dict(violates=False, detail='ok', observed=obs)
