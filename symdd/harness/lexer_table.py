"""C05 (lexer layer): every documented spelling is lexed by the real
`dd._parser.Lexer`; the (type, canonical value) pairs must be the token
alphabet that the parser/translator layer (harness `parse`) assumes; both
comment forms, blanks, tabs and newlines are lexed inside fixed formulas.
This layer is a finite table recomputed from the current source on every run
(a precomputed static table in the sense of the guidance, not a solver
verdict); it is what ties the symbolic token-level result to text."""
import z3

from .. import engine, base, concrete
from ..base import Goal

FUNCTIONS = ['dd._parser.Lexer.__init__', 'dd._parser.Lexer.t_NAME', 'dd._parser.Lexer.t_AND',
             'dd._parser.Lexer.t_OR', 'dd._parser.Lexer.t_NOT', 'dd._parser.Lexer.t_IMPLIES',
             'dd._parser.Lexer.t_EQUIV', 'dd._parser.Lexer.t_trailing_comment',
             'dd._parser.Lexer.t_doubly_delimited_comment', 'dd._parser.Lexer.t_newline']

# spelling -> (type, value the parse harness uses); from doc.md (grammar and
# "token precedence" sections) and dd/_abc.py operator comments
TABLE = [
    ('/\\', 'AND', '&'), ('&', 'AND', '&'), ('&&', 'AND', '&'),
    ('\\/', 'OR', '|'), ('|', 'OR', '|'), ('||', 'OR', '|'),
    ('~', 'NOT', '!'), ('!', 'NOT', '!'),
    ('=>', 'IMPLIES', '=>'), ('->', 'IMPLIES', '=>'),
    ('<=>', 'EQUIV', '<->'), ('<->', 'EQUIV', '<->'),
    ('#', 'XOR', '#'), ('^', 'XOR', '^'),
    ('-', 'MINUS', '-'), ('(', 'LPAREN', '('), (')', 'RPAREN', ')'),
    (',', 'COMMA', ','), (':', 'COLON', ':'), ('/', 'DIV', '/'), ('@', 'AT', '@'),
    ('\\A', 'FORALL', '\\A'), ('\\E', 'EXISTS', '\\E'), ('\\S', 'RENAME', '\\S'),
    ('ite', 'ITE', 'ite'),
    ('TRUE', 'TRUE', None), ('true', 'TRUE', None),
    ('FALSE', 'FALSE', None), ('false', 'FALSE', None),
    ('x', 'NAME', 'x'), ("x_1'", 'NAME', "x_1'"), ('_y', 'NAME', '_y'),
    ('12', 'NUMBER', '12'),
]
TEXTS = [
    ('a /\\ b', ['NAME', 'AND', 'NAME']),
    ('a\t/\\\n b', ['NAME', 'AND', 'NAME']),
    ('a (* comment \n over lines *) /\\ b', ['NAME', 'AND', 'NAME']),
    ('a /\\ b \\* trailing comment', ['NAME', 'AND', 'NAME']),
    ('a \\* c1\n /\\ b', ['NAME', 'AND', 'NAME']),
    ('(* c *)(* d *) a', ['NAME']),
]


def lex(lexer, s):
    lexer.input(s)
    return [(t.type, t.value) for t in iter(lexer.token, None)]


def table_errors():
    P = base.import_dd('dd._parser')
    lx = P.Lexer().lexer
    errs = []
    for sp, ty, val in TABLE:
        try:
            got = lex(lx, sp)
        except Exception as e:
            errs.append((sp, f'lexer raised {e!r}'))
            continue
        if len(got) != 1 or got[0][0] != ty or (val is not None and got[0][1] != val):
            errs.append((sp, f'lexed as {got}, documented token {ty}'))
    for text, types in TEXTS:
        try:
            got = [t for t, _ in lex(lx, text)]
        except Exception as e:
            errs.append((text, f'lexer raised {e!r}'))
            continue
        if got != types:
            errs.append((text, f'lexed as {got}, expected {types}'))
    return errs


class Harness:
    name = 'C05.lexer-table'
    mode = 'table'

    def __init__(self):
        pass

    def install(self):
        pass

    def run(self):
        errs = table_errors()
        goals = []
        res = []
        for sp, ty, val in TABLE:
            bad = [e for e in errs if e[0] == sp]
            res.append(dict(name=f'spelling_{sp!r}_is_{ty}', kind='property',
                            status='sat' if bad else 'unsat', t=0.0,
                            case=dict(harness='lexer_table', spelling=sp, why=bad[0][1]) if bad else None))
        for text, types in TEXTS:
            bad = [e for e in errs if e[0] == text]
            res.append(dict(name=f'text_{text!r}', kind='property',
                            status='sat' if bad else 'unsat', t=0.0,
                            case=dict(harness='lexer_table', spelling=text, why=bad[0][1]) if bad else None))
        return dict(outcome='table', goals=res,
                    witness=dict(harness='lexer_table', spelling=None), expect={})


def replay(case):
    sp = case.get('spelling')
    if sp is None:
        return dict(violates=False, detail='ok', observed={})
    errs = [e for e in table_errors() if e[0] == sp]
    if not errs:
        return dict(violates=False, detail='ok', observed={})
    # confirm through the public API
    B = concrete.fresh_dd()
    from ..mgr import nodel_class
    bdd = nodel_class(B)({'x': 0, "x_1'": 1, '_y': 2, 'a': 3, 'b': 4})
    detail = f'{sp!r}: {errs[0][1]}'
    if sp in ('true', 'false', 'TRUE', 'FALSE'):
        try:
            r = bdd.add_expr(sp)
            ok = r == (1 if sp.lower() == 'true' else -1)
        except Exception as e:
            ok = False
            detail += f'; add_expr({sp!r}) raised {e!r}'
        if ok:
            return dict(violates=False, detail='constant accepted', observed={})
        return dict(violates=True, key=f'lexer/constant-{sp}', detail=detail, observed={})
    return dict(violates=True, key='lexer/spelling', detail=detail, observed={})
