"""C15 (conversion): the real `dd.mdd.bdd_to_mdd` (with `_enumerate_integer`,
`MDD.find_or_add`, `MDD.incref`, and on the BDD side the real
`collect_garbage`, `reorder/_sort_to_order/swap`, `levels`, `ref`,
`var_at_level`, `cofactor/let/_cofactor`, `find_or_add`) from an arbitrary
valid BDD manager with an arbitrary ledger of external references.

The source manager is symbolic (tables as solver arrays); `bdd_to_mdd`
iterates over the node table and indexes Python dicts with node numbers, so
node numbers met there are fixed by the solver where they are used (one path
per feasible value).  The MDD that is built is concrete per path; what it
denotes is compared, by the solver, with the ghost denotation of the source
node (symbolic), for every node that is referenced from outside.

Goals: no exception; every externally referenced BDD node is a key of the
returned map and its MDD reference has, on every integer assignment, the value
of the BDD node on the corresponding bits (first listed bit least
significant); held BDD nodes keep number, function by name and count; the BDD
manager stays canonical; the MDD is canonical (reduced, first edge regular,
unique) with counts equal to stored in-edges."""
import itertools

import z3

from .. import engine, base, concrete, hcont, oracle
from ..engine import SymInt, _z
from ..mgr import SymMgr
from ..state import Den
from ..base import Goal
from .reorder_e2e import HSetConc

FUNCTIONS = ['dd.mdd.bdd_to_mdd', 'dd.mdd._enumerate_integer', 'dd.mdd.MDD.__init__', 'dd.mdd.MDD.find_or_add',
             'dd.mdd.MDD.incref', 'dd.mdd.MDD._allocate', 'dd.bdd.BDD.collect_garbage', 'dd.bdd.reorder',
             'dd.bdd._sort_to_order', 'dd.bdd.BDD.swap', 'dd.bdd.BDD.levels', 'dd.bdd.BDD.ref',
             'dd.bdd.BDD.var_at_level', 'dd.bdd.BDD.cofactor', 'dd.bdd.BDD.let', 'dd.bdd.BDD._cofactor',
             'dd.bdd.BDD.find_or_add', 'dd.bdd.BDD.__iter__']
STUBS = ['BDD.assert_consistent (debugging assertion that walks the whole table) -> no-op; the invariant is a goal']
CUTS = ['integer variables of 1, 2 (and 3 in the thorough tier) bits']
ASSUMPTIONS = ['the terminal node still carries the reference BDD.__init__ gives it (the user has not called decref(1))']


def dvar_choices(names):
    """Partitions of the bit names into integer variables, every listing order
    of the bits and every order of the integer variables."""
    L = len(names)
    out = []
    # one integer variable made of all bits, every bit order
    for p in itertools.permutations(names):
        out.append([('x', list(p))])
    if L >= 2:
        # one single-bit variable + the rest, both level orders, bit orders of the rest
        for i, nm in enumerate(names):
            rest = [n for n in names if n != nm]
            for p in itertools.permutations(rest):
                out.append([('x', list(p)), ('y', [nm])])
                out.append([('y', [nm]), ('x', list(p))])
    if L >= 3:
        for p in itertools.permutations(names):
            out.append([(v, [b]) for v, b in zip('xyz', p)])
    seen, res = set(), []
    for ch in out:
        key = repr(ch)
        if key not in seen:
            seen.add(key)
            res.append(ch)
    return res


def mk_dvars(choice):
    return {var: dict(level=j, len=2 ** len(bits), bitnames=list(bits))
            for j, (var, bits) in enumerate(choice)}


def mdd_tt_bits(mdd, e, dvars, names):
    """Truth table of MDD edge e over the bit names (bit j of the index is the
    value of names[j]); integer value = sum bit_k << k, first listed bit least
    significant (the documented encoding)."""
    lvl_var = {d['level']: var for var, d in dvars.items()}
    out = 0
    for a in range(2 ** len(names)):
        val = {nm: (a >> j) & 1 for j, nm in enumerate(names)}
        ival = {var: sum(val[b] << k for k, b in enumerate(d['bitnames'])) for var, d in dvars.items()}
        cur, neg = int(e), False
        guard = 0
        while True:
            if cur < 0:
                neg = not neg
                cur = -cur
            if cur == 1:
                break
            t = mdd._succ[cur]
            cur = int(t[1 + ival[lvl_var[int(t[0])]]])
            guard += 1
            if guard > 1000:
                raise RuntimeError('cycle')
        if not neg:
            out |= 1 << a
    return out


def check_mdd_generic(mdd, dvars, ext):
    bad = []
    succ = {int(k): tuple(None if x is None else int(x) for x in t) for k, t in mdd._succ.items()}
    pred = {tuple(int(x) for x in t): int(k) for t, k in mdd._pred.items()}
    ref = {int(k): int(v) for k, v in mdd._ref.items()}
    lens = {d['level']: d['len'] for d in dvars.values()}
    indeg = {k: 0 for k in succ}
    seen = {}
    if succ.get(1) != (len(dvars), None):
        bad.append(f'terminal {succ.get(1)}')
    for k, t in succ.items():
        if k == 1:
            continue
        ch = t[1:]
        if t[0] not in lens or len(ch) != lens[t[0]]:
            bad.append(f'node {k}: {len(ch)} successors at level {t[0]}')
            continue
        if ch[0] < 0:
            bad.append(f'node {k}: first edge complemented')
        if len(set(ch)) == 1:
            bad.append(f'node {k}: all successors equal')
        for cch in ch:
            if abs(cch) not in succ:
                bad.append(f'node {k}: child {cch} missing')
            else:
                indeg[abs(cch)] += 1
                if not succ[abs(cch)][0] > t[0]:
                    bad.append(f'node {k}: child {cch} not below')
        if t in seen:
            bad.append(f'duplicate nodes {seen[t]} and {k}')
        seen[t] = k
        if pred.get(t) != k:
            bad.append(f'_pred[{t}] != {k}')
    for t, k in pred.items():
        if succ.get(k) != t:
            bad.append(f'stale _pred entry {t} -> {k}')
    if set(ref) != set(succ):
        bad.append(f'_ref keys {sorted(ref)} != nodes {sorted(succ)}')
    for k in succ:
        if k in ref and ref[k] != indeg[k] + ext.get(k, 0):
            bad.append(f'count of MDD node {k} is {ref[k]}, in-edges {indeg[k]} + external {ext.get(k, 0)}')
    return bad


class Harness:
    name = 'C15.bdd_to_mdd'
    mode = 'U'

    def __init__(self, N=3, L=2, K=2, choices=None):
        self.N, self.L, self.K = N, L, K
        self.choices = choices

    def install(self):
        self.B = base.import_dd('dd.bdd')
        real = base.import_dd('dd.mdd')
        self.M = hcont.load_lifted('dd_mdd_lifted', real.__file__, register=False,
                                   extra=dict(__name__='dd.mdd'))
        self.sh = base.Shadow()
        base.std_shadows(self.sh, self.B, hset=HSetConc)
        self.sh.set(self.M, 'len', base.symlen)
        self.sh.set(self.M, 'min', engine.symmin)
        self.sh.set(self.M, 'max', engine.symmax)
        self.sh.set(self.M, 'isinstance', engine.symisinstance)
        self.sh.set(self.M, 'abs', lambda x: int(abs(x)) if isinstance(x, SymInt) else abs(x))
        self.wrec = base.WarnRec()
        self.sh.set(self.B, 'warnings', self.wrec)

    def run(self):
        c = engine.CTX
        N, L = self.N, self.L
        B, M = self.B, self.M
        names = [chr(97 + i) for i in range(L)]
        chs = dvar_choices(names)
        if self.choices is not None:
            chs = [chs[i] for i in self.choices if i < len(chs)]
        choice = chs[c.choose(len(chs), 'dvars')]
        dvars = mk_dvars(choice)
        m = SymMgr(N, self.K, L, names=names, with_cache=True, cache_model='assoc', cache_entries=1)
        m.assume_pre()
        bdd = m.install(B)
        bdd.assert_consistent = lambda *a, **k: True
        st0, st, den, ext = m.st0, m.st, m.den, m.ext
        self.wrec.msgs = []
        # the manager's own reference on the terminal (BDD.__init__) has not been given away
        c.assume(z3.Select(ext, 1) >= 1)

        def extract(model):
            case = m.extract(model)
            case['args'] = dict(choice=choice)
            case['harness'] = 'mdd_conv'
            return case

        real_cof = bdd.cofactor

        def cofactor(u, d):
            r = real_cof(u, d)
            return int(r) if isinstance(r, SymInt) else r
        bdd.cofactor = cofactor
        exc = mdd = umap = None
        try:
            mdd, umap = M.bdd_to_mdd(bdd, dvars)
        except Exception as e:
            exc = e.with_traceback(None)
        m.read_post()
        if exc is not None:
            res = base.discharge([Goal('conversion_never_raises', z3.BoolVal(False))], [], extract)
            return dict(outcome='raised:' + type(exc).__name__ + ':' + str(exc)[:80], goals=res)
        order = [bdd._level_to_var[i] for i in range(L)]
        want_order = [b for _, bits in choice for b in bits]
        perm = [order.index(nm) for nm in names]          # old level i -> new level
        den2 = Den(L, '2')
        ax = den2.axioms(st, m.ids2)
        keep = []
        for k in m.ids:
            held = z3.And(z3.Select(st0.P, k), z3.Select(ext, k) > 0)
            keep.append(z3.Implies(held, z3.And(
                z3.Select(st.P, k),
                z3.Select(den2.D, k) == oracle.bv_permute(den, z3.Select(den.D, k), perm))))
        keys = {}
        for k in umap:
            keys[int(k)] = int(umap[k])
        goals = [
            Goal('held_bdd_nodes_keep_number_and_function', z3.And(keep)),
            Goal('bdd_reduced_ordered', m.g_inv_struct()),
            Goal('bdd_unique_table_sound', m.g_pred_sound()),
            Goal('bdd_counts_exact_same_ledger', m.g_refs()),
            Goal('bits_ordered_as_the_integer_variables', z3.BoolVal(order == want_order)),
            Goal('no_decref_warning', z3.BoolVal(not self.wrec.msgs)),
        ]
        # every externally referenced node is converted, to the right function
        W = den.W
        for k in m.ids:
            held = z3.And(z3.Select(st0.P, k), z3.Select(ext, k) > 0)
            if k not in keys:
                goals.append(Goal(f'referenced_node_{k}_is_converted', z3.Not(held)))
        for k, r in keys.items():
            if k == 1:
                goals.append(Goal('terminal_maps_to_terminal', z3.BoolVal(r == 1)))
                continue
            # a key is a node of the manager as it is *after* the conversion (numbers freed by the
            # collection may have been re-used): compare with the post-state denotation, by level;
            # for held nodes the first goal ties that to the function held before
            t = mdd_tt_bits(mdd, r, dvars, order)
            goals.append(Goal(f'mdd_of_node_{k}_has_the_bdd_values',
                              z3.And(z3.Select(st.P, k), z3.Select(den2.D, k) == z3.BitVecVal(t, W))))
        bad = check_mdd_generic(mdd, dvars, {})
        goals.append(Goal('mdd_canonical_counts_exact', z3.BoolVal(not bad)))
        res = base.discharge(goals, ax, extract)
        wit = base.witness(extract)
        return dict(outcome='converted', goals=res, witness=wit, expect=dict(outcome='returned'))


def replay(case):
    import warnings
    B = concrete.fresh_dd()
    import dd.mdd as M
    ext = concrete.ext_of(case)
    bad0 = concrete.check_inv(concrete.install(case), ext)
    if bad0:
        return dict(violates=False, invalid_pre=True, detail=str(bad0[:3]))
    bdd = concrete.install(case, B)
    names = case['names']
    choice = [(v, list(b)) for v, b in case['args']['choice']]
    dvars = mk_dvars(choice)
    held = [k for k, e in ext.items() if e > 0 and k in bdd._succ]
    tts = {k: concrete.tt_named(bdd, k, names) for k in held}
    obs = dict(outcome='returned')
    call = f'bdd_to_mdd(bdd, {dict((v, b) for v, b in choice)})'
    with warnings.catch_warnings(record=True) as wl:
        warnings.simplefilter('always')
        try:
            mdd, umap = M.bdd_to_mdd(bdd, {k: dict(v) for k, v in dvars.items()})
        except Exception as e:
            return dict(violates=True, key='mdd_conv/raises:' + type(e).__name__,
                        detail=f'{call} raised {e!r}', observed=dict(outcome='raised:' + type(e).__name__))
    for k in held:
        if k not in bdd._succ:
            return dict(violates=True, key='mdd_conv/frees-held-node',
                        detail=f'{call} deleted externally referenced BDD node {k}', observed=obs)
        if concrete.tt_named(bdd, k, names) != tts[k]:
            return dict(violates=True, key='mdd_conv/changes-bdd-function',
                        detail=f'{call}: held BDD node {k} denotes another function afterwards', observed=obs)
        if k not in umap:
            return dict(violates=True, key='mdd_conv/referenced-node-not-converted',
                        detail=f'{call}: referenced BDD node {k} has no MDD reference', observed=obs)
        got = mdd_tt_bits(mdd, umap[k], dvars, names)
        if got != tts[k]:
            return dict(violates=True, key='mdd_conv/wrong-function',
                        detail=f'{call}: BDD node {k} denotes {tts[k]:#x}, its MDD reference {umap[k]} '
                               f'denotes {got:#x} on the corresponding bits', observed=obs)
    want_order = [b for _, bits in choice for b in bits]
    if [bdd._level_to_var[i] for i in range(len(names))] != want_order:
        return dict(violates=True, key='mdd_conv/bit-order', detail=f'{call}: bit order {bdd.vars}', observed=obs)
    if wl:
        return dict(violates=True, key='mdd_conv/decref-warning', detail=f'{call}: {wl[0].message}', observed=obs)
    bad = concrete.check_inv(bdd, ext)
    if bad:
        return dict(violates=True, key='mdd_conv/bdd-invariant:' + bad[0].split()[0],
                    detail=f'{call}: ' + '; '.join(bad[:3]), observed=obs)
    bad = check_mdd_generic(mdd, dvars, {})
    if bad:
        return dict(violates=True, key='mdd_conv/mdd-invariant', detail=f'{call}: ' + '; '.join(bad[:3]),
                    observed=obs)
    return dict(violates=False, detail='ok', observed=obs)
