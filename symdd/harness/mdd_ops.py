"""C15 (MDD manager steps): the real `MDD.find_or_add`, `_top_cofactor`, `ite`
(unstubbed), `apply`, `collect_garbage`, `incref/decref`, `_allocate/_release`
from an arbitrary valid MDD state over two integer variables (arities 2 or
3).  Node numbers are concrete, node contents (children, complement marks),
reference counts, the ledger of external references and the computed-table
entry are symbolic.  Oracle: truth tables over the integer assignments
(<= 9 points) as bit-vectors.  Also the canonicity lemma for the MDD
invariant (equal functions => equal references)."""
import itertools

import z3

from .. import engine, base, concrete, hcont
from ..engine import SymInt, SymBool, _z
from ..base import Goal

FUNCTIONS = ['dd.mdd.MDD.find_or_add', 'dd.mdd.MDD._top_cofactor', 'dd.mdd.MDD.ite',
             'dd.mdd.MDD.apply', 'dd.mdd.MDD.collect_garbage', 'dd.mdd.MDD.incref',
             'dd.mdd.MDD.decref', 'dd.mdd.MDD._allocate', 'dd.mdd.MDD._release',
             'dd.mdd.MDD.var_at_level']

OPS = ['lemma', 'find_or_add', 'ite', 'apply', 'gc']
ARITIES = [(2, 2), (3, 2), (2, 3)]
APPLY = {'and': lambda a, b: a & b, 'or': lambda a, b: a | b, 'xor': lambda a, b: a ^ b,
         'implies': lambda a, b: ~a | b, 'equiv': lambda a, b: ~(a ^ b), 'diff': lambda a, b: a & ~b}


def zabs(e):
    return z3.If(e < 0, -e, e)


class World:
    """symbolic contents of an MDD with concrete node numbers"""

    def __init__(self, ar, K, levels, present):
        self.ar = ar
        self.W = ar[0] * ar[1]
        self.ids = [k for k in range(2, K + 2) if present[k]]
        self.absent = [k for k in range(2, K + 2) if not present[k]]
        self.level = {k: levels[k] for k in self.ids}
        self.level[1] = 2
        self.child = {k: [z3.Int(f'c{k}_{j}') for j in range(ar[levels[k]])] for k in self.ids}
        self.D = {k: z3.BitVec(f'MD{k}', self.W) for k in self.ids}
        self.ones = z3.BitVecVal(2 ** self.W - 1, self.W)
        self.zero = z3.BitVecVal(0, self.W)
        self.D[1] = self.ones
        self.ext = {k: z3.Int(f'mext{k}') for k in [1] + self.ids}
        self.rf = {k: z3.Int(f'mrf{k}') for k in [1] + self.ids}

    def valmask(self, lvl, j):
        """points where the variable at level lvl has value j (point = x + a0*y)"""
        m = 0
        a0, a1 = self.ar
        for x in range(a0):
            for y in range(a1):
                if (x if lvl == 0 else y) == j:
                    m |= 1 << (x + a0 * y)
        return z3.BitVecVal(m, self.W)

    def den(self, e, D=None, ids=None):
        D = D or self.D
        r = self.zero
        for k in (ids if ids is not None else [1] + self.ids):
            r = z3.If(zabs(e) == k, D[k], r)
        return z3.If(e < 0, ~r, r)

    def lvl(self, e, level=None, ids=None):
        level = level or self.level
        r = z3.IntVal(99)
        for k in (ids if ids is not None else [1] + self.ids):
            r = z3.If(zabs(e) == k, z3.IntVal(level[k]), r)
        return r

    def present(self, e, ids=None):
        return z3.Or([zabs(e) == k for k in (ids if ids is not None else [1] + self.ids)])

    def node_eq(self, k, level, children, D, ids):
        r = self.zero
        for j, cj in enumerate(children):
            r = r | (self.valmask(level, j) & self.den(cj, D, ids))
        return D[k] == r

    def inv(self):
        cs = []
        all_ids = [1] + self.ids
        for k in self.ids:
            ch = self.child[k]
            cs.append(ch[0] > 0)
            cs.append(z3.Or([ch[0] != c for c in ch[1:]]))
            for cch in ch:
                cs.append(self.present(cch))
                cs.append(self.lvl(cch) > self.level[k])
            cs.append(self.node_eq(k, self.level[k], ch, self.D, all_ids))
        for a, b in itertools.combinations(self.ids, 2):
            if self.level[a] == self.level[b]:
                cs.append(z3.Or([x != y for x, y in zip(self.child[a], self.child[b])]))
        for k in all_ids:
            indeg = z3.Sum([z3.If(zabs(c) == k, 1, 0) for j in self.ids for c in self.child[j]] or [z3.IntVal(0)])
            cs.append(self.ext[k] >= 0)
            cs.append(self.rf[k] == indeg + self.ext[k])
        return cs


class Harness:
    name = 'C15.mdd-manager-steps'
    mode = 'U'

    def __init__(self, K=3, ops=None, arities=None):
        self.K = K
        self.ops = ops or OPS
        self.arities = [tuple(a) for a in arities] if arities else ARITIES

    def install(self):
        self.M = base.import_dd('dd.mdd')
        self.sh = base.Shadow()
        self.sh.set(self.M, 'dict', hcont.HDict)
        self.sh.set(self.M, 'set', hcont.HSet)
        self.sh.set(self.M, 'min', engine.symmin)
        self.sh.set(self.M, 'isinstance', engine.symisinstance)

    def build(self, w):
        M = self.M
        a0, a1 = w.ar
        dvars = dict(x=dict(level=0, len=a0), y=dict(level=1, len=a1))
        mdd = M.MDD(dvars)
        mdd._succ = {1: (2, None)}
        mdd._pred = hcont.HDict()
        mdd._ref = {1: SymInt(w.rf[1])}
        for k in w.ids:
            t = (w.level[k],) + tuple(SymInt(c) for c in w.child[k])
            mdd._succ[k] = t
            mdd._pred[t] = k
            mdd._ref[k] = SymInt(w.rf[k])
        mdd._max = self.K + 1
        mdd._free = hcont.HSet(w.absent)
        mdd._ite_table = hcont.HDict()
        return mdd

    def post(self, w, mdd):
        """read the post-state: ids, levels, children, den constants"""
        ids, level, child = [], {1: 2}, {}
        for k, t in mdd._succ.items():
            k = int(k)
            if k == 1:
                continue
            ids.append(k)
            level[k] = int(t[0])
            child[k] = [_z(c) for c in t[1:]]
        D = {1: w.ones}
        for k in ids:
            D[k] = z3.BitVec(f'MP{k}', w.W)
        all_ids = [1] + ids
        ax = [w.node_eq(k, level[k], child[k], D, all_ids) for k in ids]
        return ids, level, child, D, ax

    def run(self):
        c = engine.CTX
        K = self.K
        op = self.ops[c.choose(len(self.ops), 'op')]
        ar = self.arities[c.choose(len(self.arities), 'arities')]
        present = {k: bool(c.choose(2, 'present')) for k in range(2, K + 2)}
        levels = {k: c.choose(2, 'level') for k in range(2, K + 2) if present[k]}
        w = World(ar, K, levels, present)
        for a in w.inv():
            c.assume(a)
        mdd = self.build(w)
        g, u, v = z3.Ints('g u v')
        for x in (g, u, v):
            c.assume(w.present(x))
        ce = None
        if op in ('ite', 'apply', 'gc'):
            # one arbitrary valid computed-table entry
            ce = [z3.Int(f'mce{x}') for x in 'guvr']
            for x in ce:
                c.assume(w.present(x))
            c.assume(w.den(ce[3]) == ((w.den(ce[0]) & w.den(ce[1])) | (~w.den(ce[0]) & w.den(ce[2]))))
            c.assume(z3.And(ce[0] != 1, ce[0] != -1))
            mdd._ite_table[(SymInt(ce[0]), SymInt(ce[1]), SymInt(ce[2]))] = SymInt(ce[3])
        fam = None
        flevel = None
        kids = None

        def extract(model):
            ev = lambda t: model.eval(t, model_completion=True).as_long()
            return dict(harness='mdd_ops', op=op, ar=list(ar), K=K, fam=fam, flevel=flevel,
                        nodes={str(k): [w.level[k]] + [ev(x) for x in w.child[k]] for k in w.ids},
                        ext={str(k): ev(w.ext[k]) for k in [1] + w.ids},
                        absent=w.absent, g=ev(g), u=ev(u), v=ev(v),
                        kids=[ev(x) for x in kids] if kids else None,
                        cache=[ev(x) for x in ce] if ce else None)

        goals = []
        if op == 'lemma':
            goals.append(Goal('equal_mdd_functions_have_equal_references',
                              z3.Implies(w.den(u) == w.den(v), u == v)))
            res = base.discharge(goals, [], extract)
            return dict(outcome='done:lemma', goals=res, witness=base.witness(extract), expect={})
        exc = r = None
        try:
            if op == 'find_or_add':
                flevel = c.choose(2, 'flevel')
                kids = [z3.Int(f'kid{j}') for j in range(ar[flevel])]
                for x in kids:
                    c.assume(w.present(x))
                    c.assume(w.lvl(x) > flevel)
                r = mdd.find_or_add(flevel, *[SymInt(x) for x in kids])
            elif op == 'ite':
                r = mdd.ite(SymInt(g), SymInt(u), SymInt(v))
            elif op == 'apply':
                fams = sorted(APPLY)
                fam = fams[c.choose(len(fams), 'family')]
                r = mdd.apply(fam, SymInt(u), SymInt(v))
            else:
                mdd.collect_garbage()
        except Exception as e:
            exc = e
        if exc is not None:
            res = base.discharge([Goal('operation_accepts_valid_operands', z3.BoolVal(False))], [], extract)
            return dict(outcome='raised:' + type(exc).__name__, goals=res)
        ids, level, child, D, ax = self.post(w, mdd)
        all_ids = [1] + ids
        den2 = lambda e: w.den(e, D, all_ids)
        # old nodes that remain are unchanged
        same = []
        for k in w.ids:
            if k in ids:
                same.append(z3.BoolVal(level[k] == w.level[k] and len(child[k]) == len(w.child[k])))
                same += [a == b for a, b in zip(child[k], w.child[k])]
                same.append(D[k] == w.D[k])
        goals.append(Goal('remaining_nodes_unchanged', z3.And(same or [z3.BoolVal(True)])))
        # structure
        struct = []
        for k in ids:
            ch = child[k]
            struct.append(ch[0] > 0)
            struct.append(z3.Or([ch[0] != x for x in ch[1:]]))
            for x in ch:
                struct.append(w.present(x, all_ids))
                struct.append(w.lvl(x, level, all_ids) > level[k])
        for a, b in itertools.combinations(ids, 2):
            if level[a] == level[b]:
                struct.append(z3.Or([x != y for x, y in zip(child[a], child[b])]))
        goals.append(Goal('first_edge_regular_no_redundant_no_duplicate_ordered', z3.And(struct or [z3.BoolVal(True)])))
        # counts with the same ledger
        cnt = []
        for k in all_ids:
            indeg = z3.Sum([z3.If(zabs(x) == k, 1, 0) for j in ids for x in child[j]] or [z3.IntVal(0)])
            e = w.ext.get(k, z3.IntVal(0))
            cnt.append(_z(mdd._ref[k]) == indeg + e)
        goals.append(Goal('counts_exact_same_ledger', z3.And(cnt)))
        goals.append(Goal('ref_keys_are_node_keys', z3.BoolVal(sorted(int(k) for k in mdd._ref) == sorted(all_ids))))
        # computed table
        ctab = []
        for (cg, cu, cv), cr in mdd._ite_table.items():
            cg, cu, cv, cr = _z(cg), _z(cu), _z(cv), _z(cr)
            ctab.append(z3.And(w.present(cg, all_ids), w.present(cu, all_ids), w.present(cv, all_ids),
                               w.present(cr, all_ids),
                               den2(cr) == ((den2(cg) & den2(cu)) | (~den2(cg) & den2(cv)))))
        goals.append(Goal('computed_table_names_only_present_nodes_and_right_results',
                          z3.And(ctab or [z3.BoolVal(True)])))
        if op == 'gc':
            keep = [z3.Implies(w.ext[k] > 0, z3.BoolVal(k in ids)) for k in w.ids]
            goals.append(Goal('referenced_nodes_survive', z3.And(keep or [z3.BoolVal(True)])))
            live = [_z(mdd._ref[k]) > 0 for k in ids]
            goals.append(Goal('only_needed_nodes_remain', z3.And(live or [z3.BoolVal(True)])))
        else:
            rz = _z(r)
            if op == 'find_or_add':
                want = w.zero
                for j, x in enumerate(kids):
                    want = want | (w.valmask(flevel, j) & w.den(x))
            elif op == 'ite':
                want = (w.den(g) & w.den(u)) | (~w.den(g) & w.den(v))
            else:
                want = APPLY[fam](w.den(u), w.den(v))
            goals.append(Goal('result_denotes_the_connective_pointwise',
                              z3.And(w.present(rz, all_ids), den2(rz) == want)))
            goals.append(Goal('no_old_node_lost', z3.BoolVal(all(k in ids for k in w.ids))))
        res = base.discharge(goals, ax, extract)
        wit = base.witness(extract, ax)
        return dict(outcome='done:' + op, goals=res, witness=wit, expect=dict(outcome='returned'))


# ---------------------------------------------------------------------------

def build_concrete(case):
    import dd.mdd as M
    a0, a1 = case['ar']
    mdd = M.MDD(dict(x=dict(level=0, len=a0), y=dict(level=1, len=a1)))
    succ = {1: (2, None)}
    for k, t in case['nodes'].items():
        succ[int(k)] = tuple(t)
    mdd._succ = succ
    mdd._pred = {t: k for k, t in succ.items() if k != 1}
    ref = {k: 0 for k in succ}
    for k, t in succ.items():
        if k != 1:
            for cch in t[1:]:
                ref[abs(cch)] += 1
    for k, e in case['ext'].items():
        ref[int(k)] += e
    mdd._ref = ref
    mdd._max = case['K'] + 1
    mdd._free = set(case['absent'])
    mdd._ite_table = {}
    if case.get('cache'):
        cg, cu, cv, cr = case['cache']
        mdd._ite_table[(cg, cu, cv)] = cr
    return mdd


def mtt(mdd, e, ar):
    a0, a1 = ar
    out = 0
    for x in range(a0):
        for y in range(a1):
            cur, neg = e, False
            while True:
                if cur < 0:
                    neg = not neg
                    cur = -cur
                if cur == 1:
                    break
                t = mdd._succ[cur]
                cur = t[1 + (x if t[0] == 0 else y)]
            if not neg:
                out |= 1 << (x + a0 * y)
    return out


def check_mdd(mdd, ext, ar):
    bad = []
    succ = mdd._succ
    indeg = {k: 0 for k in succ}
    seen = {}
    for k, t in succ.items():
        if k == 1:
            continue
        ch = t[1:]
        if ch[0] < 0:
            bad.append(f'node {k}: first edge complemented')
        if len(set(ch)) == 1:
            bad.append(f'node {k}: all successors equal')
        for cch in ch:
            if abs(cch) not in succ:
                bad.append(f'node {k}: child {cch} missing')
            else:
                indeg[abs(cch)] += 1
                if not succ[abs(cch)][0] > t[0]:
                    bad.append(f'node {k}: child {cch} not below')
        if t in seen:
            bad.append(f'duplicate nodes {seen[t]} and {k}')
        seen[t] = k
        if mdd._pred.get(t) != k:
            bad.append(f'_pred[{t}] != {k}')
    for t, k in mdd._pred.items():
        if succ.get(k) != t:
            bad.append(f'stale _pred entry {t} -> {k}')
    if set(mdd._ref) != set(succ):
        bad.append(f'_ref keys {sorted(mdd._ref)} != nodes {sorted(succ)}')
    for k in succ:
        if k in mdd._ref and mdd._ref[k] != indeg[k] + ext.get(k, 0):
            bad.append(f'count of node {k} is {mdd._ref[k]}, in-edges {indeg[k]} + external {ext.get(k, 0)}')
    if not bad:
        M_ = 2 ** (ar[0] * ar[1]) - 1
        for (cg, cu, cv), cr in mdd._ite_table.items():
            if any(abs(x) not in succ for x in (cg, cu, cv, cr)):
                bad.append(f'cache entry {(cg, cu, cv)} -> {cr} names a freed node')
                continue
            tg, tu, tv, tr = (mtt(mdd, x, ar) for x in (cg, cu, cv, cr))
            if tr != ((tg & tu) | (~tg & tv)) & M_:
                bad.append(f'cache entry {(cg, cu, cv)} -> {cr} is wrong')
    return bad


def replay(case):
    ar = tuple(case['ar'])
    M_ = 2 ** (ar[0] * ar[1]) - 1
    ext = {int(k): e for k, e in case['ext'].items()}
    mdd = build_concrete(case)
    bad0 = check_mdd(mdd, ext, ar)
    if bad0:
        return dict(violates=False, invalid_pre=True, detail=str(bad0[:3]))
    op = case['op']
    obs = dict(outcome='returned')
    g, u, v = case['g'], case['u'], case['v']
    if op == 'lemma':
        if mtt(mdd, u, ar) == mtt(mdd, v, ar) and u != v:
            return dict(violates=False, detail='lemma refuted on a valid state?! (harness error)')
        return dict(violates=False, detail='ok', observed=obs)
    old = {k: mtt(mdd, k, ar) for k in mdd._succ}
    held = [k for k, e in ext.items() if e > 0]
    try:
        if op == 'find_or_add':
            kids = case['kids']
            want = 0
            a0, a1 = ar
            for x in range(a0):
                for y in range(a1):
                    j = x if case['flevel'] == 0 else y
                    if (mtt(mdd, kids[j], ar) >> (x + a0 * y)) & 1:
                        want |= 1 << (x + a0 * y)
            r = mdd.find_or_add(case['flevel'], *kids)
        elif op == 'ite':
            tg, tu, tv = (mtt(mdd, x, ar) for x in (g, u, v))
            want = ((tg & tu) | (~tg & tv)) & M_
            r = mdd.ite(g, u, v)
        elif op == 'apply':
            tu, tv = mtt(mdd, u, ar), mtt(mdd, v, ar)
            want = {'and': tu & tv, 'or': tu | tv, 'xor': tu ^ tv, 'implies': (~tu | tv) & M_,
                    'equiv': ~(tu ^ tv) & M_, 'diff': tu & ~tv & M_}[case['fam']]
            r = mdd.apply(case['fam'], u, v)
        else:
            mdd.collect_garbage()
            r = None
    except Exception as e:
        return dict(violates=True, key=f'mdd/{op}/raises', detail=f'{op} raised {e!r}', observed=obs)
    if r is not None:
        if abs(r) not in mdd._succ:
            return dict(violates=True, key=f'mdd/{op}/result-absent', detail=str(r), observed=obs)
        got = mtt(mdd, r, ar)
        if got != want:
            return dict(violates=True, key=f'mdd/{op}/wrong-function',
                        detail=f'{op} -> {r} denotes {got:#x}, expected {want:#x}', observed=obs)
    for k in (held if op == 'gc' else list(old)):
        if k not in mdd._succ or mtt(mdd, k, ar) != old[k]:
            return dict(violates=True, key=f'mdd/{op}/node-lost-or-changed', detail=f'node {k}', observed=obs)
    bad = check_mdd(mdd, ext, ar)
    if bad:
        return dict(violates=True, key=f'mdd/{op}/invariant', detail='; '.join(bad[:3]), observed=obs)
    if op == 'gc':
        for k in mdd._succ:
            if k != 1 and mdd._ref[k] == 0:
                return dict(violates=True, key='mdd/gc/leaves-unreferenced-node', detail=f'node {k}', observed=obs)
    return dict(violates=False, detail='ok', observed=obs)
