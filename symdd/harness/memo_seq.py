"""Sequences: the same public query is made twice on one manager, with a real
`collect_garbage()` and a real node creation in between (so that the number
of a node freed by the collection can be taken by another node).  Whatever a
call remembers from its first run (result cache, any memo keyed by node
numbers, names or levels) must not change the second answer: "nothing computed
after a collection refers to a freed node or a re-used node number" (C06), and
operations compute their function "whatever ... garbage collections ... the
manager went through before the call" (C01), an earlier `count` does not
influence the next one (C10).

Mode U on a symbolic manager with the ledger of external references: real
`var`, `cube`, `apply`, `add_expr`, `let`, `exist`, `count`, `support`,
`collect_garbage`, `find_or_add`.  Operands u, v are held (referenced) nodes;
the result of the first call is *not* referenced, so the collection may free
it; the filler node is an arbitrary legal `find_or_add` over the held nodes and
the constants."""
import z3

from .. import engine, base, concrete, hcont, oracle
from ..engine import SymInt, _z
from ..mgr import SymMgr
from ..state import Den
from ..base import Goal

FUNCTIONS = ['dd.bdd.BDD.var', 'dd.bdd.BDD.cube', 'dd.bdd.BDD.apply', 'dd.bdd.BDD.add_expr', 'dd.bdd.BDD.let',
             'dd.bdd.BDD.exist', 'dd.bdd.BDD.quantify', 'dd.bdd.BDD.count', 'dd.bdd.BDD.support',
             'dd.bdd.BDD.collect_garbage', 'dd.bdd.BDD.find_or_add', 'dd.bdd.BDD.ite', 'dd.bdd.BDD._ite',
             'dd.bdd.BDD.to_expr', 'dd.bdd.BDD.__copy__']

OPS = ['var', 'cube', 'apply_and', 'apply_implies_neg', 'add_expr', 'let_const', 'exist', 'count', 'support', 'to_expr']
# through a dd.autoref wrapper that lives across both calls (the middle step is then the module-level
# dd.autoref.reorder(bdd, order), or BDD.collect_garbage of the wrapper)
AUTOREF_OPS = ['autoref_len', 'autoref_support', 'autoref_var_level']


def mk_wrapper(A, bdd):
    return base.make_autoref(A, bdd)


def do_autoref(op, A, ab, U):
    f = A.Function.__new__(A.Function)
    f.node, f.bdd, f.manager = U, ab, ab._bdd
    try:
        if op == 'autoref_len':
            return (len(f), f.dag_size)
        if op == 'autoref_support':
            return sorted(f.support)
        if op == 'autoref_var_level':
            return (f.var, int(f.level))
    finally:
        f.node = None
    raise KeyError(op)


def fresh_answer(op, bdd, U):
    """the same quantity computed from the manager directly"""
    if op == 'autoref_len':
        n = len(bdd.descendants([U]))
        return (n, n)
    if op == 'autoref_support':
        return sorted(bdd.support(U))
    if op == 'autoref_var_level':
        i = bdd._succ[abs(U)][0]
        i = int(i)
        return (bdd.var_at_level(i) if i < len(bdd.vars) else None, i)
    raise KeyError(op)


def do(op, bdd, names, U, V):
    if op == 'var':
        return bdd.var(names[0])
    if op == 'cube':
        return bdd.cube({names[0]: True, names[-1]: False})
    if op == 'apply_and':
        return bdd.apply('and', U, V)
    if op == 'apply_implies_neg':
        return bdd.apply('=>', -U, V)
    if op == 'add_expr':
        return bdd.add_expr('~ %s \\/ %s' % (names[0], names[-1]))
    if op == 'let_const':
        return bdd.let({names[-1]: False}, U)
    if op == 'exist':
        return bdd.exist({names[-1]}, U)
    if op == 'count':
        return bdd.count(U)
    if op == 'support':
        return bdd.support(U)
    if op == 'to_expr':
        return bdd.to_expr(U)
    raise KeyError(op)


def want_tt(op, fu, fv, L, vtt):
    """expected truth table (ints, by level) for the node-valued operations"""
    M = (1 << (1 << L)) - 1
    if op == 'var':
        return vtt(0)
    if op == 'cube':
        return vtt(0) & ~vtt(L - 1) & M
    if op == 'apply_and':
        return fu & fv
    if op == 'apply_implies_neg':
        return (fu | fv) & M
    if op == 'add_expr':
        return (~vtt(0) | vtt(L - 1)) & M
    if op == 'let_const':
        return concrete.cof_tt(fu, L - 1, 0, L)
    if op == 'exist':
        return concrete.quant_tt(fu, [L - 1], False, L)
    raise KeyError(op)


class Harness:
    name = 'SEQ.same-query-across-a-collection'
    mode = 'U'

    def __init__(self, N=3, L=2, K=3, ops=None, middle='gc'):
        self.N, self.L, self.K = N, L, K
        self.ops = ops or OPS
        self.middle = middle        # 'gc': collection + node creation; 'swap': the two top levels exchanged

    def install(self):
        self.B = base.import_dd('dd.bdd')
        self.sh = base.Shadow()
        base.std_shadows(self.sh, self.B, hset=hcont.HSetDet)
        self.wrec = base.WarnRec()
        self.sh.set(self.B, 'warnings', self.wrec)
        engine.FORMAT_CONCRETIZE = True        # to_expr formats node numbers
        if self.middle == 'copy':
            # `BDD.__copy__` constructs `BDD(...)`: the duplicate must not run the real `__del__`
            # (a collection at an arbitrary moment inside the path)
            from ..mgr import nodel_class
            self.sh.set(self.B, 'BDD', nodel_class(self.B))

    def run_autoref(self, op, m, bdd, U, u, extract):
        c = engine.CTX
        A = base.import_dd('dd.autoref')
        names = m.names
        ab = mk_wrapper(A, bdd)
        exc = r1 = r2 = want = None
        try:
            r1 = do_autoref(op, A, ab, U)
            if self.middle == 'swap':
                A.reorder(ab, {names[1]: 0, names[0]: 1, **{n: i for i, n in enumerate(names) if i > 1}})
            else:
                ab.collect_garbage()
            r2 = do_autoref(op, A, ab, U)
            want = fresh_answer(op, bdd, U)
        except Exception as e:
            exc = e.with_traceback(None)
        m.read_post()
        if exc is not None:
            res = base.discharge([Goal('queries_never_raise', z3.BoolVal(False))], [], extract)
            return dict(outcome='raised:' + type(exc).__name__ + ':' + str(exc)[:80], goals=res)
        goals = [Goal('second_answer_is_what_the_manager_says_now', z3.BoolVal(r2 == want)),
                 Goal('reduced_ordered', m.g_inv_struct()),
                 Goal('counts_exact_same_ledger', m.g_refs())]
        res = base.discharge(goals, [], extract)
        return dict(outcome='done:' + op, goals=res, witness=base.witness(extract), expect=dict(outcome='returned'))

    def run(self):
        c = engine.CTX
        N, L = self.N, self.L
        op = self.ops[c.choose(len(self.ops), 'op')]
        m = SymMgr(N, self.K, L, with_cache=True, cache_model='assoc', cache_entries=1)
        m.assume_pre()
        bdd = m.install(self.B)
        bdd._assert_int = lambda x: x
        st0, st, den, ext = m.st0, m.st, m.den, m.ext
        names = m.names
        self.wrec.msgs = []
        u, v = z3.Ints('u v')
        for x in (u, v):
            c.assume(m.present0(x))
            c.assume(z3.Select(ext, z3.If(x < 0, -x, x)) > 0)       # operands are referenced by the caller
        c.assume(z3.Select(ext, 1) >= 1)
        U, V = SymInt(u), SymInt(v)
        # the filler: any legal find_or_add over the held nodes and the constants
        flv = c.choose(L, 'filler-level')
        # (low in {TRUE, FALSE, ~v}, high in {TRUE, u, v}: enough to build, at any level, a node that is
        # not the one just freed; every further combination multiplies the paths without adding a shape)
        lo_c, hi_c = [1, -1, -V], [1, U, V]
        flo = lo_c[c.choose(len(lo_c), 'filler-low')]
        fhi = hi_c[c.choose(len(hi_c), 'filler-high')]
        for x in (flo, fhi):       # find_or_add's precondition: successors lie below the level
            if isinstance(x, SymInt):
                ax_ = z3.If(x.z < 0, -x.z, x.z)
                c.assume(z3.Select(st0.LV, ax_) > flv)

        def extract(model):
            case = m.extract(model)
            ev = lambda x: base.ev_int(model, x if z3.is_expr(x) else _z(x))
            case['args'] = dict(op=op, u=ev(u), v=ev(v), filler=[flv, ev(flo), ev(fhi)], middle=self.middle)
            case['harness'] = 'memo_seq'
            return case

        exc = r1 = r2 = None
        stage = 'first'
        if op in AUTOREF_OPS:
            return self.run_autoref(op, m, bdd, U, u, extract)
        try:
            if self.middle == 'copy':
                # the manager is duplicated (real `BDD.__copy__`); the *duplicate* answers the query
                # first, then the original creates a node of its own (which can take the number the
                # duplicate gave to its result) and answers the same query: the two managers share nothing
                import copy as _copy
                stage = 'copy'
                m.pred.items = lambda: [(t, k) for k, t in m.succ.items() if k != 1]
                b2 = _copy.copy(bdd)
                b2._assert_int = lambda x: x
                stage = 'query-on-duplicate'
                r1 = do(op, b2, names, U, V)
                stage = 'filler'
                try:
                    bdd.find_or_add(flv, flo, fhi)
                except ValueError:
                    raise engine.Abort()
            else:
                r1 = do(op, bdd, names, U, V)
            if op == 'to_expr':
                r1 = str(r1)
            if self.middle == 'copy':
                pass
            elif self.middle == 'swap':
                stage = 'swap'
                bdd.swap(0, 1)
            else:
                stage = 'collect'
                bdd.collect_garbage()
                stage = 'filler'
                try:
                    bdd.find_or_add(flv, flo, fhi)
                except ValueError:
                    raise engine.Abort()            # not a legal triple on this path
            stage = 'second'
            r2 = do(op, bdd, names, U, V)
        except Exception as e:
            exc = e.with_traceback(None)
        m.read_post()
        if exc is not None:
            res = base.discharge([Goal(f'{stage}_call_never_raises', z3.BoolVal(False))], [], extract)
            return dict(outcome='raised:' + stage + ':' + type(exc).__name__, goals=res)
        den2 = Den(L, '2')
        ax = den2.axioms(st, m.ids2)
        fu, fv = den.s(u), den.s(v)
        # functions are compared by variable *name*: after the swap the same function has its two
        # top levels exchanged in the by-level table
        byname = (lambda t: oracle.bv_swap_adjacent(den, t, 0)) if self.middle == 'swap' else (lambda t: t)
        goals = []
        if op in ('count', 'support', 'to_expr'):
            if op == 'count':
                ok = _z(r1) == _z(r2)
                goals.append(Goal('count_is_number_of_models_again',
                                  _z(r2) * 2 ** L == oracle.bv_popcount(den, fu) * 2 ** len(bdd.support(U))))
            elif op == 'support':
                ok = z3.BoolVal(set(r1) == set(r2))
            else:
                ok = z3.BoolVal(r1 == str(r2) or self.middle == 'swap')    # the text may follow the new order
            goals.append(Goal('same_answer_after_collection_and_reuse', ok))
        else:
            vb = lambda i: den.var(i)
            W = den.W
            ones = z3.BitVecVal((1 << W) - 1, W)
            if op == 'var':
                want = vb(0)
            elif op == 'cube':
                want = vb(0) & ~vb(L - 1)
            elif op == 'apply_and':
                want = fu & fv
            elif op == 'apply_implies_neg':
                want = fu | fv
            elif op == 'add_expr':
                want = ~vb(0) | vb(L - 1)
            elif op == 'let_const':
                want = oracle.bv_cof(den, fu, L - 1, 0)
            else:
                want = oracle.bv_quant(den, fu, [L - 1], False)
            rz = _z(r2)
            a = z3.If(rz < 0, -rz, rz)
            d2 = z3.Select(den2.D, a)
            goals.append(Goal('second_result_denotes_the_function',
                              z3.And(a >= 1, a <= m.maxid, z3.Select(st.P, a),
                                     z3.If(rz < 0, ~d2, d2) == byname(want))))
        keep = []
        for k in m.ids:
            held = z3.And(z3.Select(st0.P, k), z3.Select(ext, k) > 0)
            keep.append(z3.Implies(held, z3.And(z3.Select(st.P, k),
                                                z3.Select(den2.D, k) == byname(z3.Select(den.D, k)))))
        goals += [Goal('held_nodes_keep_number_and_function', z3.And(keep)),
                  Goal('reduced_ordered', m.g_inv_struct()),
                  Goal('unique_table_sound', m.g_pred_sound()),
                  Goal('counts_exact_same_ledger', m.g_refs()),
                  Goal('no_decref_warning', z3.BoolVal(not self.wrec.msgs))]
        res = base.discharge(goals, ax, extract)
        wit = base.witness(extract)
        return dict(outcome='done:' + op, goals=res, witness=wit, expect=dict(outcome='returned'))


def replay_autoref(case):
    B = concrete.fresh_dd()
    import dd.autoref as A
    ext = concrete.ext_of(case)
    bad0 = concrete.check_inv(concrete.install(case), ext)
    if bad0:
        return dict(violates=False, invalid_pre=True, detail=str(bad0[:3]))
    bdd = concrete.install(case, B)
    a = case['args']
    names = case['names']
    op, u, middle = a['op'], a['u'], a.get('middle', 'gc')
    obs = dict(outcome='returned')
    ab = mk_wrapper(A, bdd)
    mid = 'dd.autoref.reorder(bdd, swapped order)' if middle == 'swap' else 'bdd.collect_garbage()'
    call = f'{op} of a Function on node {u}; {mid}; {op} again'
    try:
        r1 = do_autoref(op, A, ab, u)
        if middle == 'swap':
            A.reorder(ab, {names[1]: 0, names[0]: 1, **{n: i for i, n in enumerate(names) if i > 1}})
        else:
            ab.collect_garbage()
        r2 = do_autoref(op, A, ab, u)
        want = fresh_answer(op, bdd, u)
    except Exception as e:
        return dict(violates=True, key=f'seq/{op}/raises', detail=f'{call} raised {e!r}',
                    observed=dict(outcome='raised:' + type(e).__name__))
    if r2 != want:
        return dict(violates=True, key=f'seq/{op}/stale-answer',
                    detail=f'{call}: first answer {r1}, second answer {r2}, the manager now says {want}', observed=obs)
    return dict(violates=False, detail='ok', observed=obs)


def replay(case):
    if case.get('args', {}).get('op') in AUTOREF_OPS:
        return replay_autoref(case)
    import warnings
    B = concrete.fresh_dd()
    ext = concrete.ext_of(case)
    bad0 = concrete.check_inv(concrete.install(case), ext)
    if bad0:
        return dict(violates=False, invalid_pre=True, detail=str(bad0[:3]))
    bdd = concrete.install(case, B)
    a = case['args']
    names, L = case['names'], case['L']
    op, u, v = a['op'], a['u'], a['v']
    flv, flo, fhi = a['filler']
    obs = dict(outcome='returned')
    middle = a.get('middle', 'gc')
    TT = lambda e: concrete.tt_named(bdd, e, names)          # by name: independent of the current order
    fu, fv = TT(u), TT(v)
    held = [k for k, e in ext.items() if e > 0 and k in bdd._succ]
    tts = {k: TT(k) for k in held}
    mid = 'swap(0, 1)' if middle == 'swap' else f'collect_garbage(); find_or_add({flv}, {flo}, {fhi})'
    call = f'{op}(u={u}, v={v}); {mid}; {op}(u={u}, v={v})'
    if middle == 'copy':
        call = f'b2 = copy.copy(bdd); b2.{op}(u={u}, v={v}); bdd.find_or_add({flv}, {flo}, {fhi}); bdd.{op}(u={u}, v={v})'
    with warnings.catch_warnings(record=True) as wl:
        warnings.simplefilter('always')
        try:
            if middle == 'copy':
                import copy as _copy
                b2 = _copy.copy(bdd)
                b2.__class__ = type('_Quiet', (type(b2),), {'__del__': lambda self: None})
                # (the duplicate holds references of its own: its shutdown check is not the subject)
                r1 = do(op, b2, names, u, v)
            else:
                r1 = do(op, bdd, names, u, v)
            if middle == 'swap':
                bdd.swap(0, 1)
            else:
                if middle != 'copy':
                    bdd.collect_garbage()
                try:
                    bdd.find_or_add(flv, flo, fhi)
                except ValueError:
                    return dict(violates=False, detail='filler not legal', observed=obs)
            r2 = do(op, bdd, names, u, v)
        except Exception as e:
            return dict(violates=True, key=f'seq/{op}/raises', detail=f'{call} raised {e!r}',
                        observed=dict(outcome='raised:' + type(e).__name__))
    if op in ('count', 'support', 'to_expr'):
        if (set(r1) != set(r2)) if op == 'support' else (r1 != r2 and not (op == 'to_expr' and middle == 'swap')):
            return dict(violates=True, key=f'seq/{op}/answer-changes',
                        detail=f'{call}: first answer {r1!r}, second {r2!r}', observed=obs)
        if op == 'count':
            k = sum(1 for i in range(L) if concrete.depends_tt(fu, i, L))
            if r2 * 2 ** L != bin(fu).count('1') * 2 ** k:
                return dict(violates=True, key='seq/count/wrong', detail=f'{call}: {r2}', observed=obs)
    else:
        want = want_tt(op, fu, fv, L, lambda i: concrete.var_tt(i, L))
        if abs(r2) not in bdd._succ:
            return dict(violates=True, key=f'seq/{op}/result-not-a-node', detail=f'{call} -> {r2}', observed=obs)
        got = TT(r2)
        if got != want:
            return dict(violates=True, key=f'seq/{op}/wrong-after-collection',
                        detail=f'{call}: second result {r2} denotes {got:#x}, expected {want:#x} '
                               f'(first result was {r1})', observed=obs)
    for k in held:
        if k not in bdd._succ or TT(k) != tts[k]:
            return dict(violates=True, key=f'seq/{op}/held-node-changed', detail=f'{call}: node {k}', observed=obs)
    if wl:
        return dict(violates=True, key=f'seq/{op}/decref-warning', detail=f'{call}: {wl[0].message}', observed=obs)
    bad = concrete.check_inv(bdd, ext)
    if bad:
        return dict(violates=True, key=f'seq/{op}/invariant:' + bad[0].split()[0],
                    detail=f'{call}: ' + '; '.join(bad[:3]), observed=obs)
    return dict(violates=False, detail='ok', observed=obs)
