"""C12 (pickle and whole-manager pickle): the real dump / load logic with the
file system and the pickle byte format cut out (`open` and `pickle` are
replaced, in the namespace of dd.bdd, by an in-memory hand-over of the
object).  Runs `dump/_dump_bdd`, `descendants`, `_utils._values_of`,
`load/_load_pickle/_load`, `_utils._map_container`, `add_var`;
`_dump_manager/_load_manager`.

Source: an arbitrary valid manager (symbolic, read-only), roots as list or
dict or None.  Receiving manager: `fresh` (a real empty manager whose tables
are filled by the real find_or_add), or `declared`: a manager that already
declares the variables in some order and holds arbitrary other nodes
(symbolic, behind the find_or_add / ite contracts)."""
import itertools

import z3

from .. import engine, base, concrete, oracle, hcont
from ..engine import SymInt, _z
from ..mgr import SymMgr, nodel_class
from ..stubs import StubWorld, assume_canon_real
from ..base import Goal

FUNCTIONS = ['dd.bdd.BDD.dump', 'dd.bdd.BDD._dump_bdd', 'dd.bdd.BDD.descendants',
             'dd.bdd.BDD._descendants', 'dd.bdd.BDD.load', 'dd.bdd.BDD._load_pickle',
             'dd.bdd.BDD._load', 'dd.bdd.BDD._dump_manager', 'dd.bdd.BDD._load_manager',
             'dd._utils._map_container', 'dd._utils._map_values', 'dd._utils._values_of', 'dd.bdd.BDD.add_var',
             'dd.autoref.BDD.dump', 'dd.autoref.BDD.load', 'dd.autoref.BDD._load_pickle',
             'dd.autoref.BDD._wrap', 'dd.autoref.Function.__init__']
STUBS = ['open / pickle.dump / pickle.load in dd.bdd -> in-memory hand-over of the dumped object',
         'receiving manager (variant declared): find_or_add / ite -> contracts (K1, K3/K4)']
CUTS = ['on-disk pickle byte format']


class MemFile:
    def __init__(self, store, name, mode):
        self.store, self.name, self.mode = store, name, mode

    def __enter__(self):
        if 'r' in self.mode and self.name not in self.store:
            raise FileNotFoundError(self.name)
        return self

    def __exit__(self, *a):
        return False


class MemPickle:
    def __init__(self, store):
        self.store = store

    def dump(self, obj, f, **kw):
        self.store[f.name] = obj

    def load(self, f):
        return self.store[f.name]


VARIANTS = ['fresh_list', 'fresh_dict', 'fresh_rootless', 'declared_same', 'declared_other_levels',
            'declared_other_nolevels', 'manager', 'autoref_fresh_list', 'autoref_fresh_dict']


class Harness:
    name = 'C12.pickle-roundtrip'
    mode = 'M'

    def __init__(self, N=4, L=2, NT=3, variants=None):
        self.N, self.L, self.NT = N, L, NT
        self.variants = variants or VARIANTS

    def install(self):
        self.B = base.import_dd('dd.bdd')
        self.A = base.import_dd('dd.autoref')
        self.U = base.import_dd('dd._utils')
        self.sh = base.Shadow()
        base.std_shadows(self.sh, self.B)
        self.store = {}
        store = self.store
        self.sh.set(self.B, 'open', lambda name, mode='r': MemFile(store, name, mode))
        self.sh.set(self.B, 'pickle', MemPickle(store))

    def run(self):
        c = engine.CTX
        N, L, NT = self.N, self.L, self.NT
        variant = self.variants[c.choose(len(self.variants), 'variant')]
        self.store.clear()
        names = [chr(97 + i) for i in range(L)]
        ms = SymMgr(N, 0, L, names=names, with_cache=False, with_refs=False, tag='s')
        ms.decl = 'choose'
        ms.assume_pre()
        assume_canon_real(ms)
        src = ms.install(self.B)
        u1, u2 = z3.Ints('u1 u2')
        c.assume(ms.present0(u1))
        c.assume(ms.present0(u2))
        perm = list(range(L))
        mt = None
        world = None

        mm_box = []

        def extract(model):
            case = dict(source=ms.extract(model), harness='pickle_rt')
            if mt is not None:
                case['target'] = mt.extract(model)
            if mm_box:
                case['manager'] = mm_box[0].extract(model)
            case['args'] = dict(variant=variant, perm=perm, u1=base.ev_int(model, u1),
                                u2=base.ev_int(model, u2))
            return case

        if variant == 'manager':
            mm = SymMgr(N, 0, L, names=names, with_cache=True, tag='m')
            mm.decl = 'choose'
            mm_box.append(mm)
            mm.assume_pre()
            b0 = mm.install(self.B)
            b0.roots = {1}
            exc = None
            try:
                b0._dump_manager('m.p')
                b1 = self.B.BDD._load_manager('m.p')
            except Exception as e:
                exc = e
            if exc is not None:
                res = base.discharge([Goal('manager_pickle_loads', z3.BoolVal(False))], [], extract)
                return dict(outcome='raised:' + type(exc).__name__, goals=res)
            ok = (b1._succ is b0._succ and b1._pred is b0._pred and b1._ref is b0._ref
                  and dict(b1.vars) == dict(b0.vars) and b1.roots == b0.roots
                  and b1.max_nodes == b0.max_nodes
                  and dict(b1._level_to_var) == dict(b0._level_to_var))
            b1.__class__ = nodel_class(self.B)
            goals = [Goal('whole_manager_reproduced', z3.And(
                z3.BoolVal(ok), _z(b1._min_free) == _z(b0._min_free)))]
            res = base.discharge(goals, [], extract)
            return dict(outcome='loaded:manager', goals=res, witness=base.witness(extract),
                        expect=dict(outcome='returned'))

        asrc = adst = None
        if variant.startswith('autoref'):
            from .k6_autoref_ops import make_autoref
            for k in ms.ids:
                c.assume(z3.Select(ms.st0.RP, k) == z3.Select(ms.st0.P, k))
                c.assume(z3.Select(ms.st0.RF, k) >= 0)
            dst = nodel_class(self.B)()
            asrc, adst = make_autoref(self.A, src), make_autoref(self.A, dst)
            f1, f2 = self.A.Function(SymInt(u1), asrc), self.A.Function(SymInt(u2), asrc)
            roots = [f1, f2] if variant == 'autoref_fresh_list' else dict(f=f1, g=f2)
            levels = True
        elif variant.startswith('fresh'):
            dst = nodel_class(self.B)()
            roots = ([SymInt(u1), SymInt(u2)] if variant == 'fresh_list' else
                     dict(f=SymInt(u1), g=SymInt(u2)) if variant == 'fresh_dict' else None)
            levels = True
        else:
            if variant != 'declared_same':
                perms = [p for p in itertools.permutations(range(L)) if list(p) != list(range(L))]
                if not perms:
                    raise engine.Abort()
                perm = list(perms[c.choose(len(perms), 'order')])
            tn = [None] * L
            for i, p in enumerate(perm):
                tn[p] = names[i]
            mt = SymMgr(NT, 0, L, names=tn, with_cache=False, with_refs=False, tag='t')
            mt.assume_pre()
            assume_canon_real(mt)
            dst = mt.install(self.B)
            world = StubWorld(mt)
            world.install(dst)
            roots = [SymInt(u1), SymInt(u2)]
            levels = variant != 'declared_other_nolevels'
        exc = out = None
        try:
            if asrc is not None:
                asrc.dump('f.p', roots)
                out = adst.load('f.p', levels=levels)
                ok_wrapped = all(isinstance(x, self.A.Function) and x.bdd is adst
                                 for x in (out.values() if isinstance(out, dict) else out))
                keep_handles = out                       # the handles stay alive while counts are judged
                out = ({k: x.node for k, x in out.items()} if isinstance(out, dict)
                       else [x.node for x in out])
            else:
                src.dump('f.p', roots)
                out = dst.load('f.p', levels=levels)
        except Exception as e:
            exc = e
        if variant == 'declared_other_levels':
            # the loader documents a refusal: the file's levels conflict
            ok = isinstance(exc, ValueError)
            res = base.discharge([Goal('conflicting_levels_refused', z3.BoolVal(ok))], [], extract)
            return dict(outcome='refused', goals=res, witness=base.witness(extract),
                        expect=dict(outcome='raised:ValueError'))
        if exc is not None:
            res = base.discharge([Goal('load_never_raises_for_own_dump', z3.BoolVal(False))], [], extract)
            return dict(outcome='raised:' + type(exc).__name__, goals=res)
        goals = list(world.obligations) if world else []
        if variant == 'fresh_rootless':
            # every node of the source must now exist (by function) in the target
            goals.append(Goal('rootless_load_returns_no_roots',
                              z3.BoolVal(out is None or len(out) == 0)))
            pairs = []
        elif isinstance(out, dict):
            goals.append(Goal('same_container_shape', z3.BoolVal(sorted(out) == ['f', 'g'])))
            pairs = [(u1, out.get('f')), (u2, out.get('g'))]
        else:
            goals.append(Goal('same_container_shape',
                              z3.BoolVal(isinstance(out, list) and len(out) == 2)))
            pairs = list(zip([u1, u2], out))
        if asrc is not None:
            goals.append(Goal('loaded_roots_are_Functions_of_the_receiving_manager', z3.BoolVal(ok_wrapped)))
        if variant.startswith('fresh') or asrc is not None:
            # the receiving manager is concrete on this path
            succ = {int(k): tuple(None if x is None else int(x) for x in t)
                    for k, t in dst._succ.items()}
            class _M:
                pass
            mm = _M()
            mm._succ = succ
            mm.vars = dict(dst.vars)
            order_ok = dict(dst.vars) == {nm: i for i, nm in enumerate(names)}
            goals.append(Goal('variables_loaded_at_their_levels', z3.BoolVal(order_ok)))
            W = ms.den.W
            for j, (uu, r) in enumerate(pairs):
                rz = _z(r)
                alts = []
                for k in succ:
                    for sgn in (1, -1):
                        alts.append(z3.And(rz == sgn * k,
                                           ms.den.s(uu) == z3.BitVecVal(concrete.tt(mm, sgn * k), W)))
                goals.append(Goal(f'root_{j}_denotes_dumped_function', z3.Or(alts)))
            ref = {int(k): int(v) for k, v in dst._ref.items()}
            fake = _M()
            fake._succ, fake._ref, fake.vars = succ, ref, dict(dst.vars)
            fake._pred = {t: k for k, t in succ.items()}
            fake._level_to_var = dict(dst._level_to_var)
            fake._ite_table = {}
            fake._min_free = 0
            held = {1: 1}
            if asrc is not None:
                for uu, r in pairs:
                    held[abs(int(r))] = held.get(abs(int(r)), 0) + 1      # the returned handles
            bad = concrete.check_inv(fake, held)
            goals.append(Goal('receiving_manager_canonical_counts_exact', z3.BoolVal(not bad)))
        else:
            for j, (uu, r) in enumerate(pairs):
                rz = _z(r)
                want = oracle.bv_embed(ms.den.s(uu), L, L, perm)
                goals.append(Goal(f'root_{j}_denotes_dumped_function',
                                  z3.And(world.present(rz), mt.den.s(rz) == want)))
        res = base.discharge(goals, [], extract)
        wit = base.witness(extract)
        return dict(outcome='loaded:' + variant, goals=res, witness=wit,
                    expect=dict(outcome='returned'))


def replay(case):
    """Real files in a scratch directory, real pickle."""
    import os
    import shutil
    import tempfile
    B = concrete.fresh_dd()
    cs = dict(case['source'])
    cs.pop('ref', None)
    bad0 = concrete.check_inv(concrete.install(cs), None)
    if bad0:
        return dict(violates=False, invalid_pre=True, detail=str(bad0[:3]))
    a = case['args']
    variant = a['variant']
    names = cs['names']
    d = tempfile.mkdtemp(prefix='symdd_pickle')
    fn = os.path.join(d, 'f.p')
    obs = dict(outcome='returned')
    try:
        if variant == 'manager':
            cm = dict(case['manager'])
            ext = concrete.ext_of(cm)
            bad0 = concrete.check_inv(concrete.install(cm), ext)
            if bad0:
                return dict(violates=False, invalid_pre=True, detail=str(bad0[:3]))
            b0 = concrete.install(cm, B)
            b0.roots = {1}
            try:
                b0._dump_manager(fn)
                b1 = B.BDD._load_manager(fn)
            except Exception as e:
                return dict(violates=True, key='pickle/manager-raises', detail=repr(e), observed=obs)
            b1.__class__ = nodel_class(B)
            same = (dict(b1.vars) == dict(b0.vars) and b1._succ == b0._succ and b1._pred == b0._pred
                    and b1._ref == b0._ref and b1._min_free == b0._min_free and b1.roots == b0.roots
                    and dict(b1._level_to_var) == dict(b0._level_to_var))
            if not same:
                return dict(violates=True, key='pickle/manager-not-reproduced',
                            detail=f'_dump_manager/_load_manager: vars {b0.vars} -> {b1.vars}', observed=obs)
            for k in b0._succ:
                if concrete.tt_named(b0, k, names) != concrete.tt_named(b1, k, names):
                    return dict(violates=True, key='pickle/manager-not-reproduced',
                                detail=f'node {k} denotes another function after the manager round trip', observed=obs)
            return dict(violates=False, detail='ok', observed=obs)
        src = concrete.install(cs, B)
        if variant.startswith('autoref'):
            import dd.autoref as A
            from .k6_autoref_ops import make_autoref
            for k in src._succ:
                src._ref[k] += 1
            dst = nodel_class(B)()
            asrc, adst = make_autoref(A, src), make_autoref(A, dst)
            f1, f2 = A.Function(a['u1'], asrc), A.Function(a['u2'], asrc)
            rts = [f1, f2] if variant == 'autoref_fresh_list' else dict(f=f1, g=f2)
            try:
                asrc.dump(fn, rts)
                out = adst.load(fn)
            except Exception as e:
                return dict(violates=True, key='pickle/autoref-raises', detail=repr(e), observed=obs)
            vals = list(out.values()) if isinstance(out, dict) else list(out)
            if (isinstance(rts, dict) and (not isinstance(out, dict) or sorted(out) != ['f', 'g'])) or \
               not all(isinstance(x, A.Function) and x.bdd is adst for x in vals) or len(vals) != 2:
                return dict(violates=True, key='pickle/autoref-container', detail=str(out), observed=obs)
            want = [a['u1'], a['u2']]
            got = [out['f'], out['g']] if isinstance(out, dict) else list(out)
            for uu, h in zip(want, got):
                if concrete.tt_named(dst, h.node, names) != concrete.tt_named(src, uu, names):
                    return dict(violates=True, key='pickle/wrong-function',
                                detail=f'autoref dump/load: root {uu} loaded as {h.node}', observed=obs)
            held = {1: 1}
            for h in got:
                held[abs(h.node)] = held.get(abs(h.node), 0) + 1
            bad = concrete.check_inv(dst, held)
            if bad:
                return dict(violates=True, key='pickle/counts:' + bad[0].split()[0],
                            detail='autoref dump/load: ' + '; '.join(bad[:3]), observed=obs)
            return dict(violates=False, detail='ok', observed=obs)
        if variant.startswith('fresh'):
            dst = nodel_class(B)()
            roots = ([a['u1'], a['u2']] if variant == 'fresh_list' else
                     dict(f=a['u1'], g=a['u2']) if variant == 'fresh_dict' else None)
            levels = True
        else:
            ct = dict(case['target'])
            ct.pop('ref', None)
            bad0 = concrete.check_inv(concrete.install(ct), None)
            if bad0:
                return dict(violates=False, invalid_pre=True, detail=str(bad0[:3]))
            dst = concrete.install(ct, B)
            roots = [a['u1'], a['u2']]
            levels = variant != 'declared_other_nolevels'
        old_t = {k: concrete.tt_named(dst, k, names) for k in dst._succ} if dst.vars else {}
        exc = out = None
        try:
            src.dump(fn, roots)
            out = dst.load(fn, levels=levels)
        except Exception as e:
            exc = e
        call = f'dump(roots={roots}) ; load(levels={levels}) [{variant}, target order {dict(dst.vars)}]'
        if variant == 'declared_other_levels':
            if isinstance(exc, ValueError):
                return dict(violates=False, detail='refused', observed=dict(outcome='raised:ValueError'))
            if exc is None:
                # accepted: then it must be right (checked below)
                pass
            else:
                return dict(violates=True, key='pickle/load-raises', detail=f'{call} raised {exc!r}', observed=obs)
        elif exc is not None:
            key = 'pickle/rootless-load-raises' if roots is None else 'pickle/load-raises'
            return dict(violates=True, key=key, detail=f'{call} raised {exc!r}', observed=obs)
        if roots is None:
            pairs = []
        elif isinstance(roots, dict):
            if not isinstance(out, dict) or sorted(out) != sorted(roots):
                return dict(violates=True, key='pickle/container-shape', detail=f'{call} -> {out}', observed=obs)
            pairs = [(roots[k], out[k]) for k in roots]
        else:
            if not isinstance(out, list) or len(out) != len(roots):
                return dict(violates=True, key='pickle/container-shape', detail=f'{call} -> {out}', observed=obs)
            pairs = list(zip(roots, out))
        bad = concrete.check_inv(dst, None)
        if bad:
            return dict(violates=True, key='pickle/receiving-manager-corrupt:' + bad[0].split()[0],
                        detail=f'{call}: ' + '; '.join(bad[:3]), observed=obs)
        for uu, r in pairs:
            if abs(r) not in dst._succ:
                return dict(violates=True, key='pickle/root-absent', detail=f'{call} -> {out}', observed=obs)
            if concrete.tt_named(dst, r, names) != concrete.tt_named(src, uu, names):
                return dict(violates=True, key='pickle/wrong-function',
                            detail=f'{call}: loaded root {r} differs from dumped {uu}', observed=obs)
        for k, t in old_t.items():
            if k not in dst._succ or concrete.tt_named(dst, k, names) != t:
                return dict(violates=True, key='pickle/target-node-changed', detail=f'{call}: node {k}', observed=obs)
        if variant.startswith('fresh'):
            bad = concrete.check_inv(dst, {1: 1})
            if bad:
                return dict(violates=True, key='pickle/counts:' + bad[0].split()[0],
                            detail=f'{call}: ' + '; '.join(bad[:3]), observed=obs)
        return dict(violates=False, detail='ok', observed=obs)
    finally:
        shutil.rmtree(d, ignore_errors=True)
