"""C19: the Cython wrappers, checked on their *source text* (the extensions
cannot be built here).

front end: the body of a method is cut out of the current .pyx text by
indentation and normalised to Python by a line-level rewriter (`cpdef T f(`
-> `def f(`, `cdef` declarations dropped, C casts removed, `NULL` -> None);
the result must `ast.parse`.

operator meaning: the normalised `apply` is executed by the engine for each
symbol of the documented vocabulary with operands whose `.node` is a symbolic
truth table; the library functions are bound to their documented meaning
(trusted table below).  The same symbol goes through the real
`dd.bdd.BDD.apply` executed on a signed-reference algebra over the same
bit-vectors.  z3 decides equality for all operand values.

reference discipline: the normalised `wrap` / `Function.init` (or
`__cinit__`) / `__dealloc__` and `incref` / `decref` run against a ledger
stub of the library's reference calls.
"""
import ast
import os
import re
import textwrap
import typing

import z3

from .. import engine, base
from ..engine import SymBool
from ..base import Goal
from .k5_apply import FAMILY, ARITY, OPS

FUNCTIONS = ['dd.bdd.BDD.apply', 'dd._utils.assert_operator_arity',
             'pyx:cudd.pyx', 'pyx:cudd_zdd.pyx', 'pyx:sylvan.pyx', 'pyx:buddy.pyx']
CUTS = ['the C libraries themselves (CUDD, Sylvan, BuDDy) and Cython code generation: library calls are bound to their documented meaning',
        'methods the normaliser cannot turn into Python are listed in evidence as not_normalised']
LIB_TABLE = ['Cudd_Not = ~', 'Cudd_bddAnd/Or/Xor/Xnor = & | ^ xnor', 'Cudd_bddIte = ite',
             'Cudd_ReadOne/ReadLogicZero = TRUE/FALSE',
             'Cudd_bddUnivAbstract/ExistAbstract(f, cube) = forall/exists over support(cube) of f',
             'Cudd_zddDiff/Union/Intersect/Ite on the characteristic function; Cudd_ReadZddOne(0) = TRUE',
             '_forall_root/_exist_root(f, cube), _dict_to_zdd(vars) = cube of vars',
             'sylvan_not/and/or/xor/imp/biimp/diff/ite; sylvan_forall/exists(f, vars) = quantify f over support(vars)',
             'bdd_not/and/or/xor (BuDDy)',
             'Cudd_Ref +1, Cudd_RecursiveDeref/Cudd_Deref -1, sylvan_ref/deref, bdd_addref/delref']

W = 4
L = 2
REPO = base.REPO


def pyx_path(name):
    return os.path.join(REPO, 'dd', name)


def extract_block(path, header_re, which=0, cls=None):
    """the source lines of the `which`-th def whose header matches"""
    src = open(path).read().splitlines()
    hits = [n for n, l in enumerate(src) if re.match(header_re, l)]
    if cls is not None:
        # restrict to the class body
        cstart = [n for n, l in enumerate(src) if re.match(r'cdef class %s\b|class %s\b' % (cls, cls), l)]
        if not cstart:
            raise KeyError(cls)
        cs = cstart[0]
        ce = len(src)
        for n in range(cs + 1, len(src)):
            if src[n].strip() and not src[n].startswith((' ', '\t', '#')):
                ce = n
                break
        hits = [n for n in hits if cs < n < ce]
    if len(hits) <= which:
        raise KeyError(header_re)
    n = hits[which]
    line = src[n]
    ind = len(line) - len(line.lstrip())
    body = [line]
    in_header = not line.rstrip().endswith(':') or True
    depth = line.count('(') - line.count(')')
    k = n + 1
    # header may span lines until parentheses close and a ':' ends the line
    while depth > 0 or not body[-1].rstrip().endswith(':'):
        body.append(src[k])
        depth += src[k].count('(') - src[k].count(')')
        k += 1
    for l in src[k:]:
        if l.strip() and (len(l) - len(l.lstrip())) <= ind:
            break
        body.append(l)
    return textwrap.dedent('\n'.join(body))


def normalise(txt):
    out = []
    for l in txt.splitlines():
        s = l.strip()
        if re.match(r'cdef\s+[\w\s\*]+$', s) and '(' not in s:
            continue                      # C declaration
        l = re.sub(r'^(\s*)(cpdef|cdef)\s+(?:inline\s+)?(?:[\w\.\*]+\s+)?(\w+)\(', r'\1def \3(', l)
        l = re.sub(r'<[\w\s\*]+>\s*', '', l)     # C casts
        out.append(l)
    s = '\n'.join(out)
    s = s.replace('sy.LACE_ME_WRAP', 'pass')
    s = re.sub(r'\bis NULL\b', 'is None', s)
    s = re.sub(r'\bis not NULL\b', 'is not None', s)
    s = re.sub(r'\bNULL\b', 'None', s)
    ast.parse(s)
    return s


# ---------------------------------------------------------------------------
# library model on truth tables

ONES = z3.BitVecVal(15, W)
ZERO = z3.BitVecVal(0, W)
VARBV = [z3.BitVecVal(0b1010, W), z3.BitVecVal(0b1100, W)]


def cof(f, i, val):
    x = VARBV[i]
    sh = 1 << i
    if val:
        h = f & x
        return h | z3.LShR(h, sh)
    lo = f & ~x
    return lo | (lo << sh)


def quant_by_support(f, cube, forall):
    for i in range(L):
        dep = cof(cube, i, 1) != cof(cube, i, 0)
        a, b = cof(f, i, 1), cof(f, i, 0)
        f = z3.If(dep, (a & b) if forall else (a | b), f)
    return f


class V:
    """a library node value"""

    def __init__(self, bv):
        self.bv = bv

    def __eq__(self, o):
        if isinstance(o, V):
            return SymBool(self.bv == o.bv)
        return False

    def __ne__(self, o):
        r = self.__eq__(o)
        return (not r) if isinstance(r, bool) else SymBool(z3.Not(r.z))

    __hash__ = None


class Invalid:
    pass


class Mgr:
    def __init__(self):
        self.manager = self

    def configure(self, **kw):
        return dict(max_memory=0, max_cache_hard=0)

    def support(self, u):
        return ('SUPPORT', u.node)


class NodeLedger:
    """Library reference counts per node (node = truth table value), relative
    to the state before the call: one integer term per possible node value."""

    def __init__(self):
        self.cnt = [z3.IntVal(0)] * (2 ** W)
        self.calls = 0

    def _upd(self, node, d):
        bv = node.bv if isinstance(node, V) else node
        self.calls += 1
        self.cnt = [z3.If(bv == k, c + d, c) for k, c in enumerate(self.cnt)]

    def inc(self, *a):
        self._upd(a[-1], 1)

    def dec(self, *a):
        self._upd(a[-1], -1)

    def balanced_except(self, bv):
        """every count is back to its initial value, except one reference held on `bv`"""
        return z3.And([c == z3.If(bv == k, 1, 0) for k, c in enumerate(self.cnt)])


LEDGER = None


class Node:
    def __init__(self, node, mgr=None, owned=False):
        mgr = mgr if mgr is not None else Mgr()
        self.node = node
        self.manager = mgr.manager
        self.bdd = mgr
        self.zdd = mgr
        self._ref = 1
        # a handle made by `wrap` takes one library reference and gives it back on disposal
        self._led = LEDGER if owned else None
        if self._led is not None:
            self._led.inc(node)

    def __del__(self):
        led = getattr(self, '_led', None)
        if led is not None and self.node is not None:
            self._led = None
            led.dec(self.node)


class OwnedNode(Node):
    def __init__(self, node, mgr=None):
        Node.__init__(self, node, mgr, owned=True)


class Mgr:
    def __init__(self):
        self.manager = self

    def configure(self, **kw):
        return dict(max_memory=0, max_cache_hard=0)

    def support(self, u):
        return ('SUPPORT', u.node)


def b(f):
    return lambda *a: V(f(*[x.bv if isinstance(x, V) else x for x in a]))


def read_zdd_one(mgr, i):
    """CUDD: univ[i], the ZDD of all subsets of the variables from level i
    down; as a Boolean function: every variable above level i is FALSE
    (i == 0: the constant TRUE)."""
    if isinstance(i, int):
        r = ONES
        for j in range(min(i, L)):
            r = r & ~VARBV[j]
        return V(r)
    iz = engine._z(i)
    r = ONES
    acc = ONES
    out = ONES
    for k in range(1, L + 1):
        acc = acc & ~VARBV[k - 1]
        out = z3.If(iz >= k, acc, out)
    return V(out)


def node_read_index(node):
    """index of the top variable of a node: some index 0..L (not determined
    by the function alone in a ZDD, so it is left arbitrary)"""
    c = engine.CTX
    i = c.fresh_int('topindex')
    c.assume(z3.And(i >= 0, i <= L))
    return engine.SymInt(i)


def lib_namespace():
    import dd._abc as A
    import dd._utils as U
    ns = dict(
        Cudd_Not=b(lambda a: ~a),
        Cudd_bddAnd=b(lambda m, a, c: a & c), Cudd_bddOr=b(lambda m, a, c: a | c),
        Cudd_bddXor=b(lambda m, a, c: a ^ c), Cudd_bddXnor=b(lambda m, a, c: ~(a ^ c)),
        Cudd_bddIte=b(lambda m, g, a, c: (g & a) | (~g & c)),
        Cudd_ReadOne=lambda m: V(ONES), Cudd_ReadLogicZero=lambda m: V(ZERO),
        Cudd_bddUnivAbstract=b(lambda m, f, c: quant_by_support(f, c, True)),
        Cudd_bddExistAbstract=b(lambda m, f, c: quant_by_support(f, c, False)),
        Cudd_ReadZddOne=read_zdd_one, Cudd_NodeReadIndex=node_read_index,
        Cudd_ReadPerm=lambda m, i: i, Cudd_ReadPermZdd=lambda m, i: i,
        Cudd_IsConstant=lambda n: SymBool(z3.Or(n.bv == ONES, n.bv == ZERO)),
        Cudd_Regular=lambda n: n, Cudd_IsComplement=lambda n: SymBool(z3.Extract(W - 1, W - 1, n.bv) == 0),
        Cudd_zddDiff=b(lambda m, a, c: a & ~c), Cudd_zddUnion=b(lambda m, a, c: a | c),
        Cudd_zddIntersect=b(lambda m, a, c: a & c),
        Cudd_zddIte=b(lambda m, g, a, c: (g & a) | (~g & c)),
        _forall_root=b(lambda m, f, c: quant_by_support(f, c, True)),
        _exist_root=b(lambda m, f, c: quant_by_support(f, c, False)),
        _dict_to_zdd=lambda qvars, zdd: Node(qvars[1], zdd),
        wrap=lambda self, r: Node(r, self, owned=True),
        Cudd_Ref=lambda n: LEDGER.inc(n), Cudd_RecursiveDeref=lambda m, n: LEDGER.dec(n),
        Cudd_RecursiveDerefZdd=lambda m, n: LEDGER.dec(n), Cudd_Deref=lambda n: LEDGER.dec(n),
        _utils=U, _dd_abc=A, _ty=typing, _abc=__import__('collections.abc').abc,
        Function=Node, DdRef=object, _Yes=bool, _VariableName=str, BDD=object, ZDD=object)

    class SY:
        sylvan_not = staticmethod(b(lambda a: ~a))
        sylvan_and = staticmethod(b(lambda a, c: a & c))
        sylvan_or = staticmethod(b(lambda a, c: a | c))
        sylvan_xor = staticmethod(b(lambda a, c: a ^ c))
        sylvan_imp = staticmethod(b(lambda a, c: ~a | c))
        sylvan_biimp = staticmethod(b(lambda a, c: ~(a ^ c)))
        sylvan_diff = staticmethod(b(lambda a, c: a & ~c))
        sylvan_ite = staticmethod(b(lambda g, a, c: (g & a) | (~g & c)))
        sylvan_forall = staticmethod(b(lambda f, c: quant_by_support(f, c, True)))
        sylvan_exists = staticmethod(b(lambda f, c: quant_by_support(f, c, False)))
        sylvan_invalid = Invalid()
        sylvan_ref = staticmethod(lambda n: (LEDGER.inc(n), n)[1])
        sylvan_deref = staticmethod(lambda n: (LEDGER.dec(n), n)[1])
        BDD = object
    ns['sy'] = SY

    class BU:
        bdd_not = staticmethod(b(lambda a: ~a))
        bdd_and = staticmethod(b(lambda a, c: a & c))
        bdd_or = staticmethod(b(lambda a, c: a | c))
        bdd_xor = staticmethod(b(lambda a, c: a ^ c))
        bdd_addref = staticmethod(lambda n: (LEDGER.inc(n), n)[1])
        bdd_delref = staticmethod(lambda n: (LEDGER.dec(n), n)[1])
    ns['buddy'] = BU
    return ns


class Ref:
    """signed-reference algebra for the real dd.bdd.BDD.apply: -x is the
    complement, 1 / -1 are TRUE / FALSE."""

    def __init__(self, bv):
        self.bv = bv

    def __neg__(self):
        return Ref(~self.bv)

    def __abs__(self):
        return self


def tobv(x):
    if isinstance(x, Ref):
        return x.bv
    if x == 1:
        return ONES
    if x == -1:
        return ZERO
    raise TypeError(x)


def ref_apply(B, op, u, v, w):
    class R(B.BDD):
        def __del__(s):
            pass

        def __contains__(s, x):
            return True

        def ite(s, g, a, c):
            g, a, c = tobv(g), tobv(a), tobv(c)
            return Ref((g & a) | (~g & c))

        def support(s, x):
            return ('SUPPORT', tobv(x))

        def quantify(s, f, q, forall=False):
            return Ref(quant_by_support(tobv(f), q[1], forall))
    args = [Ref(x) for x in (u, v, w) if x is not None]
    return tobv(R().apply(op, *args))


FILES = {'cudd': ('cudd.pyx', 'BDD'), 'cudd_zdd': ('cudd_zdd.pyx', 'ZDD'),
         'sylvan': ('sylvan.pyx', 'BDD'), 'buddy': ('buddy.pyx', 'BDD')}


class Harness:
    name = 'C19.pyx-apply'
    mode = 'source'

    def __init__(self, which='cudd'):
        self.which = which

    def install(self):
        self.B = base.import_dd('dd.bdd')
        fn, cls = FILES[self.which]
        self.path = pyx_path(fn)
        txt = extract_block(self.path, r'\s*cpdef Function apply\(', cls=cls)
        self.src = normalise(txt)
        ns = lib_namespace()
        if self.which == 'buddy':
            full = open(self.path).read()
            m = re.search(r'_OperatorSymbol: _ty.TypeAlias = _ty.Literal\[(.*?)\]', full, re.S)
            ns['_OPERATOR_SYMBOLS'] = set(ast.literal_eval('[' + m.group(1) + ']'))
            ns['_OperatorSymbol'] = str
            # BuDDy: `Function(r)` itself takes the library reference (bdd_addref in __cinit__)
            ns['Function'] = OwnedNode
        exec(self.src, ns)
        self.f = ns['apply']
        self.ns = ns

    def run(self):
        c = engine.CTX
        op = OPS[c.choose(len(OPS), 'op')]
        fam = FAMILY[op]
        ar = ARITY[fam]
        u, v, w = (z3.BitVec(x, W) for x in 'uvw')
        me = Mgr()
        ops = [Node(V(x), me) for x in (u, v, w)][:ar]
        want = ref_apply(self.B, op, u, v if ar > 1 else None, w if ar > 2 else None)

        def extract(model):
            return dict(harness='pyx', which=self.which, op=op,
                        u=model.eval(u, model_completion=True).as_long(),
                        v=model.eval(v, model_completion=True).as_long(),
                        w=model.eval(w, model_completion=True).as_long())

        global LEDGER
        LEDGER = led = NodeLedger()
        exc = got = None
        try:
            if self.which == 'buddy' and ar == 3:
                raise ValueError('buddy.apply has no ternary form')
            got = self.f(me, op, *ops)
        except (ValueError, AssertionError) as e:
            exc = e.with_traceback(None)
        if exc is not None:
            if self.which == 'buddy':
                return dict(outcome='not_in_subset:' + op, goals=[], witness=None)
            res = base.discharge([Goal(f'{self.which}_accepts_{fam}', z3.BoolVal(False))], [], extract)
            return dict(outcome='raised', goals=res)
        gv = got.bv if isinstance(got, V) else got.node.bv
        goals = [Goal(f'{self.which}_apply_same_connective_and_roles', gv == want)]
        if isinstance(got, Node):
            # all temporaries are gone (the frame of `apply` has been released): the only library
            # reference this call still holds is the one of the handle it returned
            goals.append(Goal(f'{self.which}_apply_releases_every_temporary_reference',
                              z3.And(z3.BoolVal(got._led is led), led.balanced_except(gv))))
        res = base.discharge(goals, [], extract)
        got._led = None
        return dict(outcome='compared', goals=res, witness=base.witness(extract),
                    expect=dict(outcome='returned'))


def replay(case):
    """Concrete re-evaluation of the same source-level comparison with the
    model's operand truth tables (the extension itself cannot be run)."""
    B = base.import_dd('dd.bdd')
    which, op = case['which'], case['op']
    fn, cls = FILES[which]
    try:
        src = normalise(extract_block(pyx_path(fn), r'\s*cpdef Function apply\(', cls=cls))
    except Exception as e:
        return dict(violates=False, detail=f'not normalisable: {e!r}')
    ns = lib_namespace()
    if which == 'buddy':
        full = open(pyx_path(fn)).read()
        m = re.search(r'_OperatorSymbol: _ty.TypeAlias = _ty.Literal\[(.*?)\]', full, re.S)
        ns['_OPERATOR_SYMBOLS'] = set(ast.literal_eval('[' + m.group(1) + ']'))
        ns['_OperatorSymbol'] = str
        ns['Function'] = OwnedNode
    exec(src, ns)
    fam = FAMILY[op]
    ar = ARITY[fam]
    vals = [z3.BitVecVal(case[k], W) for k in 'uvw']
    me = Mgr()
    engine.CTX = engine.Ctx()
    global LEDGER
    LEDGER = led = NodeLedger()
    want = ref_apply(B, op, vals[0], vals[1] if ar > 1 else None, vals[2] if ar > 2 else None)
    try:
        got = ns['apply'](me, op, *[Node(V(x), me) for x in vals[:ar]])
    except Exception as e:
        e = e.with_traceback(None)
        if which == 'buddy':
            return dict(violates=False, detail='outside BuDDy subset', observed=dict(outcome='returned'))
        return dict(violates=True, key=f'pyx/{which}/rejects-documented-operator',
                    detail=f'{which}.apply({op!r}) raises {e!r}', observed={})
    gv = got.bv if isinstance(got, V) else got.node.bv
    # operands are concrete; anything the library model leaves open (e.g. the
    # index of a node's top variable) is decided by the solver
    ctx = engine.CTX
    r = ctx.check(gv != want)
    if r == z3.sat:
        mdl = ctx.solver.model()
        g1 = mdl.eval(gv, model_completion=True).as_long()
        w1 = mdl.eval(want, model_completion=True).as_long()
        role = 'quantifier-roles' if fam in ('forall', 'exists') else 'connective'
        return dict(violates=True, key=f'pyx/{which}/{role}',
                    detail=f'{which}.pyx apply({op!r}, u={case["u"]:#06b}, v={case["v"]:#06b}) gives {g1:#06b}, '
                           f'dd.bdd.BDD.apply gives {w1:#06b}', observed=dict(outcome='returned'))
    if isinstance(got, Node):
        bal = z3.And(z3.BoolVal(got._led is led), led.balanced_except(gv))
        got._led = None
        if ctx.check(z3.Not(bal)) == z3.sat:
            mdl = ctx.solver.model()
            off = {k: mdl.eval(cv, model_completion=True).as_long() for k, cv in enumerate(led.cnt)}
            g1 = mdl.eval(gv, model_completion=True).as_long()
            off = {f'{k:#06b}': v for k, v in off.items() if v != (1 if k == g1 else 0)}
            return dict(violates=True, key=f'pyx/{which}/apply-temporary-reference',
                        detail=f'{which}.pyx apply({op!r}, u={case["u"]:#06b}, v={case["v"]:#06b}): after the call '
                               f'(result {g1:#06b}, one reference held by the returned handle) the library counts '
                               f'are off by {off}', observed=dict(outcome='returned'))
    return dict(violates=False, detail='ok', observed=dict(outcome='returned'))
