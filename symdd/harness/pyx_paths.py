"""C19 (temporary references, every path): the C-style recursions of
`dd/cudd_zdd.pyx` that take and release raw CUDD references (`_forall`,
`_exist`, `_disjoin`, `_conjoin`, `_compose`) and `ZDD.add_var`.  The body is
cut out of the current .pyx text, normalised to Python (pyx.normalise plus C
parameter declarations) and executed by the engine against an *opaque* model
of the library:

* nodes are opaque objects; comparisons between nodes, and every integer the
  library returns (levels, indices), are unconstrained symbolic values, so each
  branch of the body is followed both ways;
* calls that can fail (`_find_or_add`, `cuddZddIte`, the cache lookup, the
  recursive calls, `Cudd_ReadZddOne`, `Cudd_zddIthVar`) return a fresh node or
  NULL; the recursive call is replaced by its own contract (returns a node on
  which this call holds nothing, or NULL);
* `cuddRef/Cudd_Ref` = +1, `cuddDeref/Cudd_Deref/Cudd_RecursiveDerefZdd` = -1
  on a ledger per node; `x.ref` reads an arbitrary non-negative count plus
  what this call holds.

Goal, on every path (return of a node, return of NULL, exception): the call
holds no reference any more, except one per node it has stored in the memo
table that outlives it (`_compose`)."""
import re

import z3

from .. import engine, base
from ..engine import SymInt, SymBool
from ..base import Goal
from . import pyx

FUNCTIONS = ['pyx:cudd_zdd.pyx']
CUTS = pyx.CUTS + ['the opaque library model says nothing about *which* node a call returns: only the reference '
                   'balance of each path is decided here (operator meaning: harness pyx)']

TARGETS = {
    '_forall': dict(rx=r'cdef DdRef _forall\(', args=['mgr', 'level', 'node', 'node']),
    '_exist': dict(rx=r'cdef DdRef _exist\(', args=['mgr', 'level', 'node', 'node']),
    '_disjoin': dict(rx=r'cdef DdRef _disjoin\(', args=['mgr', 'level', 'node', 'node']),
    '_conjoin': dict(rx=r'cdef DdRef _conjoin\(', args=['mgr', 'level', 'node', 'node']),
    '_compose': dict(rx=r'cdef DdRef _compose\(', args=['mgr', 'level', 'table', 'node', 'vector']),
    'add_var': dict(rx=r'\s*cpdef int add_var\(', cls='ZDD', args=['self', 'name', 'index']),
    '_c_compose': dict(rx=r'cpdef Function _c_compose\(', args=['handle', 'dvars']),
}
INT_FUNCS = {'Cudd_ReadInvPermZdd', 'Cudd_NodeReadIndex', 'Cudd_ReadPermZdd', 'Cudd_ReadPerm',
             'Cudd_ReadInvPerm', 'Cudd_ReadZddSize', 'Cudd_ReadSize'}
MAYBE_NULL = {'_find_or_add', 'cuddZddIte', 'cuddCacheLookup2Zdd', 'Cudd_ReadZddOne', 'Cudd_zddIthVar',
              'cuddUniqueInterZdd', 'Cudd_zddIte', 'cuddZddGetNode'}
INC = {'cuddRef', 'Cudd_Ref'}
DEC = {'cuddDeref', 'Cudd_Deref', 'Cudd_RecursiveDerefZdd', 'Cudd_RecursiveDeref'}


def normalise_c(txt):
    """pyx.normalise + C-style parameter declarations and exception clauses"""
    txt = re.sub(r'\)\s*(except\??\s*[\w\-]+|noexcept)\s*:', '):', txt)
    txt = re.sub(r'^(\s*)Dd\w+\s*\*\s*(\w+)(\s*[,\)])', r'\1\2\3', txt, flags=re.M)     # `DdManager *mgr,`
    txt = re.sub(r'^(\s*)cdef\s+Dd\w+\s*\*\s*\w+\s*$', r'\1pass', txt, flags=re.M)
    txt = re.sub(r'<\s*DdRef\s*\*\s*>\s*', '', txt)
    txt = re.sub(r'<\s*(?:stdint\.uintptr_t|DdRef|DdNode\s*\*|DdRef\s*\*|int)\s*>\s*', '', txt)
    # annotations are not evaluated (C types are not Python objects)
    return 'from __future__ import annotations\n' + pyx.normalise(txt)


class World:
    def __init__(self):
        self.c = engine.CTX
        self.nodes = []
        self.net = {}          # node -> python int (concrete per path)
        self.errors = []
        self.eq = {}
        self.log = []
        self.cache_ids = []

    def node(self, name):
        n = CNode(self, f'{name}#{len(self.nodes)}')
        self.nodes.append(n)
        self.net[n] = 0
        return n

    def maybe(self, name):
        if self.c.choose(2, 'null:' + name) == 1:
            self.log.append(f'{name} -> NULL')
            return None
        n = self.node(name)
        self.log.append(f'{name} -> {n.name}')
        return n

    def inc(self, *a):
        x = a[-1]
        if x is None:
            return            # Cudd_Ref(NULL) is what the code under analysis guards against afterwards
        self.net[x] += 1
        self.log.append(f'ref {x.name}')

    def dec(self, *a):
        x = a[-1]
        if x is None:
            # (ZDD.add_var refs and derefs the new node *before* its NULL test; whether the library
            # tolerates that on an allocation failure is outside the property: only balances are judged)
            self.log.append('deref NULL')
            return
        self.net[x] -= 1
        self.log.append(f'deref {x.name}')

    def fresh_int(self, name):
        i = self.c.fresh_int(name)
        return SymInt(i)


class CNode:
    def __init__(self, w, name):
        self.w, self.name = w, name
        b = w.c.fresh_int('baseref')
        w.c.assume(b >= 0)
        self.base = b

    def __eq__(self, o):
        if o is self:
            return True
        if not isinstance(o, CNode):
            return False
        key = frozenset((id(self), id(o)))
        if key not in self.w.eq:
            self.w.eq[key] = self.w.c.fresh_bool('same_node')
        return SymBool(self.w.eq[key])

    def __ne__(self, o):
        r = self.__eq__(o)
        return (not r) if isinstance(r, bool) else SymBool(z3.Not(r.z))

    def __hash__(self):
        return id(self)

    def __int__(self):
        return id(self)

    @property
    def ref(self):
        return SymInt(self.base + self.w.net[self])


class CacheId:
    """the tag under which a recursion memoises in CUDD's computed table"""

    def __init__(self, cname):
        self.cname = cname


class Handle:
    """a `Function`: owns one library reference from creation (`wrap`, `zdd.var`) to disposal;
    handles passed in by the caller are the caller's (not counted in this call's ledger)"""

    def __init__(self, w, node, owned, zdd=None):
        self.w, self.node, self.owned = w, node, owned
        self.bdd = self.zdd = zdd
        self.manager = Mgr()
        if owned and node is not None:
            w.inc(node)

    @property
    def ref(self):
        return self.node.ref

    def __del__(self):
        if getattr(self, 'owned', False) and self.node is not None:
            self.owned = False
            self.w.dec(self.node)


class Zdd:
    def __init__(self, w, names):
        self.w = w
        self.vars = {nm: i for i, nm in enumerate(names)}
        self._index_of_var = dict(self.vars)

    def _number_of_cudd_vars(self):
        return len(self.vars)

    def var(self, name):
        return Handle(self.w, self.w.node('var_' + name), True, self)


class Table:
    """the memo of `_compose` (outlives the call): membership is arbitrary"""

    def __init__(self, w):
        self.w = w
        self.stored = []

    def __contains__(self, t):
        return self.w.c.choose(2, 'memo-hit') == 1

    def __getitem__(self, t):
        return self.w.node('memo')

    def __setitem__(self, t, x):
        self.stored.append(x)
        self.w.log.append(f'table[..] = {getattr(x, "name", x)}')

    def values(self):
        return list(self.stored)


class Vector:
    def __init__(self, w):
        self.w = w

    def __getitem__(self, i):
        return self.w.maybe('vector[i]')


class Mgr:
    reordered = 0


class NS(dict):
    """globals of the analysed body: anything not defined is an opaque
    library function"""

    def __init__(self, w, own):
        dict.__init__(self)
        self.w, self.own = w, own

    def __missing__(self, name):
        import builtins
        if hasattr(builtins, name):
            return getattr(builtins, name)
        w = self.w
        if name in INC:
            f = w.inc
        elif name in DEC:
            f = w.dec
        elif name in INT_FUNCS:
            f = lambda *a, _n=name: w.fresh_int(_n)
        elif name in ('DD_ZERO', 'DD_ONE'):
            f = lambda mgr, _n=name: w.consts[_n]
        elif name == 'CUDD_CONST_INDEX':
            f = 65535
        elif name in ('cuddE', 'cuddT'):
            f = lambda u, _n=name: w.node(_n)
        elif name == 'cuddCacheInsert2':
            f = lambda mgr, cid, *a: w.cache_ids.append(('insert', getattr(cid, 'cname', repr(cid))))
        elif name == 'PyMem_Free':
            f = lambda *a: None
        elif name == 'PyMem_Malloc':
            f = lambda n: [None] * int(n)
        elif name == 'sizeof':
            f = lambda t: 1
        elif name == 'wrap':
            f = lambda bdd, r: Handle(w, r, True, bdd)
        elif name in ('DdRef', 'DdManager', 'Function'):
            f = object
        elif name.endswith('_cache_id'):
            f = CacheId(name)
        elif name.endswith('_root'):
            # `except NULL` functions: a failure arrives as an exception
            def f(*a, _n=name):
                if w.c.choose(2, 'fails:' + _n) == 1:
                    w.log.append(f'{_n} raises')
                    raise AssertionError(_n)
                n = w.node(_n)
                w.log.append(f'{_n} -> {n.name}')
                return n
        elif name == 'cuddCacheLookup2Zdd':
            def f(mgr, cid, *a):
                w.cache_ids.append(('lookup', getattr(cid, 'cname', repr(cid))))
                return w.maybe('cuddCacheLookup2Zdd')
        elif name in MAYBE_NULL or name == self.own or name in TARGETS:
            f = lambda *a, _n=name: w.maybe(_n)
        else:
            f = lambda *a, _n=name, **k: w.node(_n)
        self[name] = f
        return f


class Harness:
    name = 'C19.pyx-path-balance'
    mode = 'source'

    def __init__(self, which='_disjoin'):
        self.which = which

    def install(self):
        t = TARGETS[self.which]
        path = pyx.pyx_path('cudd_zdd.pyx')
        self.src = normalise_c(pyx.extract_block(path, t['rx'], cls=t.get('cls')))

    def run(self):
        c = engine.CTX
        w = World()
        w.consts = dict(DD_ZERO=w.node('ZERO'), DD_ONE=w.node('ONE'))
        ns = NS(w, self.which)
        ns['_utils'] = None
        exec(self.src, ns)
        f = ns[self.which]
        # the recursive call is replaced by the contract of the call (a node this call holds nothing on, or NULL)
        ns[self.which] = lambda *a, _n=self.which: w.maybe(_n)
        table = None
        args = []
        for kind in TARGETS[self.which]['args']:
            if kind == 'mgr':
                args.append(Mgr())
            elif kind == 'level':
                args.append(w.fresh_int('level'))
            elif kind == 'node':
                args.append(w.node('arg'))
            elif kind == 'table':
                table = Table(w)
                args.append(table)
            elif kind == 'vector':
                args.append(Vector(w))
            elif kind == 'self':
                class Z:
                    manager = Mgr()
                    _index_of_var = {}

                    def _add_var(s, var, j):
                        pass
                args.append(Z())
            elif kind == 'name':
                args.append('x')
            elif kind == 'handle':
                zdd = Zdd(w, ['x', 'y'])
                args.append(Handle(w, w.node('u'), False, zdd))
            elif kind == 'dvars':
                k = c.choose(3, 'substituted')
                dv = {}
                if k >= 1:
                    dv['x'] = Handle(w, w.node('gx'), False, zdd)
                if k >= 2:
                    dv['y'] = Handle(w, w.node('gy'), False, zdd)
                args.append(dv)
            elif kind == 'index':
                args.append(None if c.choose(2, 'index-given') == 0 else 3)
        exc = ret = None
        try:
            ret = f(*args)
        except (AssertionError, RuntimeError) as e:
            exc = e.with_traceback(None)
        outcome = ('raised' if exc is not None else 'returned_null' if ret is None else 'returned')
        ret_node = ret.node if isinstance(ret, Handle) else None
        if self.which == 'add_var' and exc is None:
            outcome = 'returned'
        want = {n: 0 for n in w.nodes}
        if ret_node is not None:
            want[ret_node] = 1          # the reference of the handle that is returned
        if table is not None:
            for x in table.stored:
                if x is not None:
                    want[x] = want.get(x, 0) + 1
        off = {n.name: (w.net[n], want[n]) for n in w.nodes if w.net[n] != want[n]}
        trace = list(c.trace)

        def extract(model):
            return dict(harness='pyx_paths', which=self.which, trace=[list(t) if isinstance(t, tuple) else t for t in trace],
                        outcome=outcome, log=w.log[-40:], off={k: list(v) for k, v in off.items()},
                        errors=list(w.errors), cache_ids=[list(t) for t in w.cache_ids])
        goals = [Goal(f'{self.which}_holds_no_temporary_reference_at_exit', z3.BoolVal(not off))]
        # results are memoised in the library's computed table under the recursion's *own* tag
        # (a lookup under another recursion's tag returns that recursion's results)
        own_tag = f'{self.which}_cache_id'
        foreign = [t for t in w.cache_ids if t[1] != own_tag]
        goals.append(Goal(f'{self.which}_memoises_under_its_own_tag', z3.BoolVal(not foreign)))
        res = base.discharge(goals, [], extract)
        if isinstance(ret, Handle):
            ret.owned = False
        return dict(outcome=outcome, goals=res, witness=base.witness(extract), expect=dict(outcome='returned'))


def replay(case):
    """Source-level property (no compiled extension here): the path is run
    again, alone, along the recorded decisions, and judged again."""
    h = Harness(case['which'])
    try:
        h.install()
    except Exception as e:
        return dict(violates=False, detail=f'not normalisable: {e!r}', observed=dict(outcome='returned'))
    prefix = [tuple(t) if isinstance(t, list) else t for t in case['trace']]
    engine.CTX = engine.Ctx(prefix)
    try:
        out = h.run()
    except engine.Abort:
        return dict(violates=False, detail='infeasible', observed=dict(outcome='returned'))
    bad = [g for g in out['goals'] if g['status'] != 'unsat']
    if bad:
        cs = bad[0].get('case') or {}
        if 'own_tag' in bad[0]['name']:
            return dict(violates=True, key=f'pyx/cudd_zdd/{case["which"]}/foreign-cache-tag',
                        detail=f'cudd_zdd.pyx {case["which"]} uses the computed table under {cs.get("cache_ids")} '
                               f'(its own tag is {case["which"]}_cache_id)', observed=dict(outcome='returned'))
        what = 'null-deref' if 'null' in bad[0]['name'] else 'reference-held-at-exit'
        return dict(violates=True, key=f'pyx/cudd_zdd/{case["which"]}/{what}',
                    detail=f'cudd_zdd.pyx {case["which"]}: on the path [{"; ".join(cs.get("log", case.get("log", [])))}] '
                           f'ending in {out["outcome"]}, references (held, expected) {cs.get("off", case.get("off"))} '
                           f'{cs.get("errors") or ""}', observed=dict(outcome='returned'))
    return dict(violates=False, detail='ok', observed=dict(outcome='returned'))
