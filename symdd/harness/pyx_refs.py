"""C19 (reference discipline): the normalised `wrap`, `Function.init` /
`__cinit__`, `__dealloc__`, `BDD.incref` / `decref` / `_incref` / `_decref`
bodies of each wrapper run against a ledger stub of the library's reference
calls.  The handle's own lower bound `_ref` and the library count are
symbolic; the invariant 0 <= _ref <= count must be kept by every step, a
handle takes exactly one library reference on creation and gives back exactly
one on disposal (none on a second disposal where the wrapper guards it)."""
import re

import z3

from .. import engine, base
from ..engine import SymInt, SymBool, _z
from ..base import Goal
from . import pyx

FUNCTIONS = ['pyx:cudd.pyx', 'pyx:cudd_zdd.pyx', 'pyx:sylvan.pyx', 'pyx:buddy.pyx']
CUTS = pyx.CUTS

SCEN = ['lifecycle', 'incref', 'decref', 'dealloc_from_any_ref']


class Ledger:
    def __init__(self, c0):
        self.count = c0        # z3 Int term
        self.calls = []

    def inc(self, *a):
        self.count = self.count + 1
        self.calls.append('ref')

    def dec(self, *a):
        self.count = self.count - 1
        self.calls.append('deref')


class Harness:
    name = 'C19.pyx-reference-discipline'
    mode = 'source'

    def __init__(self, which='cudd'):
        self.which = which

    def install(self):
        fn, cls = pyx.FILES[self.which]
        path = pyx.pyx_path(fn)
        self.parts = {}
        self.missing = []

        def grab(name, rx, cls_=None, which=0):
            try:
                self.parts[name] = pyx.normalise(pyx.extract_block(path, rx, cls=cls_, which=which))
            except Exception as e:
                self.missing.append(f'{name}: {type(e).__name__}')
        if self.which != 'buddy':
            grab('wrap', r'cdef Function wrap\(')
            grab('init', r'\s*cdef init\(', 'Function')
        else:
            grab('init', r'\s*def __cinit__\(', 'Function')
        grab('dealloc', r'\s*def __dealloc__\(', 'Function')
        grab('incref', r'\s*(cpdef|cdef) incref\(', cls)
        grab('decref', r'\s*(cpdef|cdef) decref\(', cls)
        if self.which in ('cudd', 'cudd_zdd'):
            grab('_incref', r'\s*cdef _incref\(', cls)
            grab('_decref', r'\s*cdef _decref\(', cls)

    def build(self, led):
        ns = pyx.lib_namespace()
        ns.update(Cudd_Ref=led.inc, Cudd_RecursiveDeref=led.dec, Cudd_Deref=led.dec,
                  Cudd_RecursiveDerefZdd=led.dec)
        ns['sy'].sylvan_ref = staticmethod(led.inc)
        ns['sy'].sylvan_deref = staticmethod(led.dec)
        ns['buddy'].bdd_addref = staticmethod(led.inc)
        ns['buddy'].bdd_delref = staticmethod(led.dec)
        ns['_c_int'] = int
        fns = {}
        for name, src in self.parts.items():
            loc = dict(ns)
            exec(src, loc)
            defname = re.search(r'def (\w+)\(', src).group(1)
            fns[name] = loc[defname]
            loc_ns = loc
            fns[name + '_ns'] = loc

        class F:
            pass
        if 'init' in fns:
            if self.which == 'buddy':
                F.__cinit__ = fns['init']
            else:
                F.init = fns['init']
        if 'dealloc' in fns:
            F.dealloc = fns['dealloc']

        class M:
            def __init__(s):
                s.manager = s
        for nm in ('incref', 'decref', '_incref', '_decref'):
            if nm in fns:
                setattr(M, nm, fns[nm])
        for k in list(fns):
            if k.endswith('_ns'):
                fns[k]['Function'] = F
        return F, M, fns

    def run(self):
        c = engine.CTX
        scen = SCEN[c.choose(len(SCEN), 'scenario')]
        c0 = z3.Int('libcount0')
        r0 = z3.Int('handle_ref0')
        led = Ledger(c0)
        F, M, fns = self.build(led)
        mgr = M()
        node = pyx.V(z3.BitVec('node', pyx.W))
        goals = []
        recursive = z3.Bool('recursive')

        def extract(model):
            return dict(harness='pyx_refs', which=self.which, scenario=scen,
                        c0=base.ev_int(model, c0), r0=base.ev_int(model, r0),
                        recursive=base.ev_bool(model, recursive))

        if self.missing:
            goals.append(Goal('methods_normalised', z3.BoolVal(False), kind='aux'))
        outcome = scen
        if scen == 'lifecycle':
            c.assume(c0 >= 0)
            if self.which == 'buddy':
                f = F()
                f.__cinit__(node)
            else:
                f = fns['wrap'](mgr, node)
            goals.append(Goal('creation_takes_exactly_one_reference', led.count == c0 + 1))
            goals.append(Goal('handle_points_to_node', z3.BoolVal(f.node is node)))
            if hasattr(f, '_ref'):
                goals.append(Goal('lower_bound_is_one', _z(f._ref) == 1))
            f.dealloc()
            goals.append(Goal('disposal_gives_back_exactly_one', led.count == c0))
            if self.which in ('cudd', 'cudd_zdd'):
                f.dealloc()
                goals.append(Goal('second_disposal_gives_back_none', led.count == c0))
        elif scen in ('incref', 'decref'):
            if self.which not in ('cudd', 'cudd_zdd'):
                # raw library-node methods: one call, one library reference
                getattr(mgr, scen)(node)
                want = c0 + 1 if scen == 'incref' else c0 - 1
                goals.append(Goal(f'{scen}_moves_library_count_by_one', led.count == want))
            else:
                c.assume(z3.And(r0 >= 0, r0 <= c0))       # invariant: _ref is a lower bound
                u = F()
                u.node = node
                u._ref = SymInt(r0)
                u.manager = mgr
                u.bdd = mgr
                exc = None
                try:
                    if scen == 'incref':
                        mgr.incref(u)
                    else:
                        mgr.decref(u, SymBool(recursive))
                except RuntimeError as e:
                    exc = e
                if exc is not None:
                    outcome = scen + '_refused'
                    goals.append(Goal('refused_only_without_reference', r0 <= 0))
                    goals.append(Goal('refusal_changes_nothing',
                                      z3.And(led.count == c0, _z(u._ref) == r0)))
                else:
                    d = 1 if scen == 'incref' else -1
                    goals.append(Goal('accepted_only_with_reference', r0 > 0))
                    goals.append(Goal('handle_and_library_move_together',
                                      z3.And(_z(u._ref) == r0 + d, led.count == c0 + d)))
                    goals.append(Goal('lower_bound_invariant_kept',
                                      z3.And(_z(u._ref) >= 0, _z(u._ref) <= led.count)))
                    if scen == 'decref':
                        goals.append(Goal('node_cleared_iff_last_reference',
                                          (r0 == 1) if u.node is None else (r0 != 1)))
        else:
            if self.which not in ('cudd', 'cudd_zdd'):
                f = F()
                f.node = node
                f.dealloc()
                goals.append(Goal('disposal_gives_back_exactly_one', led.count == c0 - 1))
            else:
                c.assume(z3.And(r0 >= 0, r0 <= c0))
                f = F()
                f.node = node
                f._ref = SymInt(r0)
                f.manager = mgr
                f.dealloc()
                goals.append(Goal('disposal_gives_back_one_iff_still_held',
                                  led.count == c0 - z3.If(r0 > 0, 1, 0)))
                goals.append(Goal('lower_bound_invariant_kept',
                                  z3.And(_z(f._ref) >= 0, _z(f._ref) <= led.count)))
        res = base.discharge(goals, [], extract)
        wit = base.witness(extract)
        return dict(outcome=outcome, goals=res, witness=wit, expect=dict(outcome='returned'))


def replay(case):
    """Source-level property: there is no compiled extension to replay on.
    The model is re-run concretely through the same normalised source; a
    discrepancy is reported as a source-level violation."""
    h = Harness(case['which'])
    h.install()

    class OneShot:
        def run(self_inner):
            return None
    # concrete re-execution: fix the symbolic values by assumption
    engine.CTX = engine.Ctx()
    scen_idx = SCEN.index(case['scenario'])
    engine.CTX.prefix = [('ch', scen_idx)] if scen_idx else [('ch', 0)]
    engine.CTX.assume(z3.Int('libcount0') == case['c0'])
    engine.CTX.assume(z3.Int('handle_ref0') == case['r0'])
    engine.CTX.assume(z3.Bool('recursive') == case['recursive'])
    try:
        out = h.run()
    except engine.Abort:
        return dict(violates=False, detail='infeasible', observed=dict(outcome='returned'))
    bad = [g for g in out['goals'] if g['status'] != 'unsat' and g['kind'] == 'property']
    if bad:
        return dict(violates=True, key=f'pyx/{case["which"]}/refs/{case["scenario"]}/{bad[0]["name"]}',
                    detail=f'{case["which"]}.pyx {case["scenario"]} with library count {case["c0"]}, '
                           f'_ref {case["r0"]}: {bad[0]["name"]} fails', observed=dict(outcome='returned'))
    return dict(violates=False, detail='ok', observed=dict(outcome='returned'))
