"""C03: the real `BDD.quantify / _quantify / exist / forall / _map_to_level`
and the quantifier forms of `apply` (with the real `support`) over an
arbitrary valid manager; `ite` / `find_or_add` are contract stubs.  The
quantified subset, the quantifier and the entry point are iterated
(nondeterministic choices); the operand is symbolic."""
import itertools

import z3

from .. import engine, base, concrete, oracle
from ..engine import SymInt, _z
from ..mgr import SymMgr
from ..stubs import StubWorld, assume_canon_real
from ..base import Goal

FUNCTIONS = ['dd.bdd.BDD.quantify', 'dd.bdd.BDD._quantify', 'dd.bdd.BDD.exist',
             'dd.bdd.BDD.forall', 'dd.bdd.BDD._map_to_level',
             'dd.bdd.BDD._assert_keys_are_levels', 'dd.bdd.BDD.apply',
             'dd.bdd.BDD.support', 'dd.bdd.BDD._support']
STUBS = ['BDD.ite -> contract (K3/K4)', 'BDD.find_or_add -> contract (K1)']

ENTRIES = ['quantify_names', 'quantify_levels', 'exist_forall', 'apply']
ALL_ENTRIES = ENTRIES + ['autoref_quantify', 'autoref_exist_forall']


def subsets(L, maxq):
    out = []
    for k in range(0, min(L, maxq) + 1):
        out += list(itertools.combinations(range(L), k))
    return out


class Harness:
    name = 'C03.quantify'
    mode = 'M'

    def __init__(self, N=4, L=2, maxq=99, entries=None):
        self.N, self.L, self.maxq = N, L, maxq
        self.entries = entries or ENTRIES

    def install(self):
        self.B = base.import_dd('dd.bdd')
        self.A = base.import_dd('dd.autoref')
        self.sh = base.Shadow()
        base.std_shadows(self.sh, self.B)

    def run(self):
        c = engine.CTX
        N, L = self.N, self.L
        entry = self.entries[c.choose(len(self.entries), 'entry')]
        forall = bool(c.choose(2, 'forall'))
        m = SymMgr(N, 0, L, with_cache=False, with_refs=False)
        m.assume_pre()
        assume_canon_real(m)
        if entry.startswith('autoref'):
            for k in m.ids:
                c.assume(z3.Select(m.st0.RP, k) == z3.Select(m.st0.P, k))
                c.assume(z3.Select(m.st0.RF, k) >= 0)
        bdd = m.install(self.B)
        world = StubWorld(m)
        world.install(bdd)
        den = m.den
        u = z3.Int('u')
        c.assume(m.present0(u))
        w = z3.Int('w')
        if entry == 'apply':
            c.assume(m.present0(w))
            qlev = None
        else:
            subs = subsets(L, self.maxq)
            qlev = list(subs[c.choose(len(subs), 'subset')])
        names = m.names

        def extract(model):
            case = m.extract(model)
            case['args'] = dict(entry=entry, forall=forall, qlev=qlev,
                                u=base.ev_int(model, u), w=base.ev_int(model, w))
            case['harness'] = 'quant'
            return case

        exc = r = None
        try:
            if entry == 'quantify_names':
                r = bdd.quantify(SymInt(u), {names[i] for i in qlev}, forall)
            elif entry == 'quantify_levels':
                r = bdd.quantify(SymInt(u), set(qlev), forall)
            elif entry == 'exist_forall':
                f = bdd.forall if forall else bdd.exist
                r = f([names[i] for i in qlev], SymInt(u))
            elif entry.startswith('autoref'):
                from .k6_autoref_ops import make_autoref
                abdd = make_autoref(self.A, bdd)
                fu = self.A.Function(SymInt(u), abdd)
                if entry == 'autoref_quantify':
                    r = abdd.quantify(fu, {names[i] for i in qlev}, forall).node
                else:
                    f = abdd.forall if forall else abdd.exist
                    r = f({names[i] for i in qlev}, fu).node
            else:
                r = bdd.apply('\\A' if forall else '\\E', SymInt(w), SymInt(u))
        except Exception as e:
            exc = e
        if exc is not None:
            res = base.discharge([Goal('accepts_valid_arguments', z3.BoolVal(False))], [], extract)
            return dict(outcome='raised:' + type(exc).__name__, goals=res)
        rz = _z(r)
        f = den.s(u)
        if entry == 'apply':
            want = f
            for i in range(L):
                want = z3.If(oracle.bv_depends(den, den.s(w), i),
                             oracle.bv_quant(den, want, [i], forall), want)
        else:
            want = oracle.bv_quant(den, f, qlev, forall)
        goals = list(world.obligations)
        goals.append(Goal('result_is_quantification',
                          z3.And(world.present(rz), den.s(rz) == want)))
        if entry != 'apply' and not qlev:
            goals.append(Goal('empty_set_returns_operand', rz == u))
        res = base.discharge(goals, [], extract)
        wit = base.witness(extract)
        expect = {}
        if wit is not None:
            mdl = c.solver.model()
            expect = dict(outcome='returned',
                          result_tt=mdl.eval(den.s(rz), model_completion=True).as_long())
        return dict(outcome='returned:' + entry, goals=res, witness=wit, expect=expect)


def replay(case):
    B = concrete.fresh_dd()
    L = case['L']
    case = dict(case)
    case.pop('ref', None)
    bad0 = concrete.check_inv(concrete.install(case), None)
    if bad0:
        return dict(violates=False, invalid_pre=True, detail=str(bad0[:3]))
    bdd = concrete.install(case, B)
    a = case['args']
    names = case['names']
    entry, forall, qlev = a['entry'], a['forall'], a['qlev']
    f = concrete.tt(bdd, a['u'])
    old = {k: concrete.tt(bdd, k) for k in bdd._succ}
    exc = r = None
    try:
        if entry == 'quantify_names':
            r = bdd.quantify(a['u'], {names[i] for i in qlev}, forall)
        elif entry == 'quantify_levels':
            r = bdd.quantify(a['u'], set(qlev), forall)
        elif entry == 'exist_forall':
            fn = bdd.forall if forall else bdd.exist
            r = fn([names[i] for i in qlev], a['u'])
        elif entry.startswith('autoref'):
            import dd.autoref as A
            from .k6_autoref_ops import make_autoref
            abdd = make_autoref(A, bdd)
            for k in bdd._succ:
                bdd._ref[k] += 1
            fu = A.Function(a['u'], abdd)
            if entry == 'autoref_quantify':
                r = abdd.quantify(fu, {names[i] for i in qlev}, forall).node
            else:
                fn = abdd.forall if forall else abdd.exist
                r = fn({names[i] for i in qlev}, fu).node
        else:
            r = bdd.apply('\\A' if forall else '\\E', a['w'], a['u'])
    except Exception as e:
        exc = e
    call = f'{entry}(u={a["u"]}, vars={qlev if entry != "apply" else "support(%d)" % a["w"]}, forall={forall})'
    obs = dict(outcome='raised:' + type(exc).__name__ if exc else 'returned', result=r)
    if exc is not None:
        return dict(violates=True, key='quantify/raises', detail=f'{call} raised {exc!r}', observed=obs)
    if entry == 'apply':
        fw = concrete.tt(bdd, a['w'])
        qlev = [i for i in range(L) if concrete.depends_tt(fw, i, L)]
    want = concrete.quant_tt(f, qlev, forall, L)
    if abs(r) not in bdd._succ:
        return dict(violates=True, key='quantify/result-absent', detail=call, observed=obs)
    got = concrete.tt(bdd, r)
    obs['result_tt'] = got
    if got != want:
        return dict(violates=True, key='quantify/wrong-function',
                    detail=f'{call} -> {r} denotes {got:#x}, expected {want:#x} (operand {f:#x})', observed=obs)
    for k, t in old.items():
        if k not in bdd._succ or concrete.tt(bdd, k) != t:
            return dict(violates=True, key='quantify/old-node-changed', detail=f'{call}: node {k}', observed=obs)
    bad = concrete.check_inv(bdd, None)
    if bad:
        return dict(violates=True, key='quantify/invariant:' + bad[0].split()[0],
                    detail=f'{call}: ' + '; '.join(bad[:3]), observed=obs)
    return dict(violates=False, detail='ok', observed=obs)
