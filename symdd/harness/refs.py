"""incref / decref / ref steps from an arbitrary valid state with ledger EXT
(C06): the count of |u| changes by exactly one, nothing else changes; decref
at zero warns and changes nothing."""
import warnings

import z3

from .. import engine, base, concrete
from ..engine import SymInt, _z
from ..mgr import SymMgr
from ..base import Goal

FUNCTIONS = ['dd.bdd.BDD.incref', 'dd.bdd.BDD.decref', 'dd.bdd.BDD.ref']


class Harness:
    name = 'refs.incref-decref'
    mode = 'U'

    def __init__(self, N=4, L=2):
        self.N, self.L = N, L

    def install(self):
        self.B = base.import_dd('dd.bdd')
        self.sh = base.Shadow()
        base.std_shadows(self.sh, self.B)
        self.wrec = base.WarnRec()
        self.sh.set(self.B, 'warnings', self.wrec)

    def run(self):
        c = engine.CTX
        op = ['incref', 'decref'][c.choose(2, 'op')]
        m = SymMgr(self.N, 0, self.L, with_cache=True)
        m.assume_pre()
        bdd = m.install(self.B)
        st0, st, ext = m.st0, m.st, m.ext
        self.wrec.msgs = []
        u = z3.Int('u')
        c.assume(m.present0(u))
        au = z3.If(u < 0, -u, u)

        def extract(model):
            case = m.extract(model)
            case['args'] = dict(op=op, u=base.ev_int(model, u))
            case['harness'] = 'refs'
            return case

        exc = None
        try:
            before = bdd.ref(SymInt(u))
            getattr(bdd, op)(SymInt(u))
            after = bdd.ref(SymInt(u))
        except Exception as e:
            exc = e
        m.read_post()
        if exc is not None:
            res = base.discharge([Goal('never_raises', z3.BoolVal(False))], [], extract)
            return dict(outcome='raised', goals=res)
        warned = bool(self.wrec.msgs)
        delta = 1 if op == 'incref' else (0 if warned else -1)
        ext2 = z3.Store(ext, au, z3.Select(ext, au) + delta)
        goals = [
            Goal('count_changes_by_one', _z(after) == _z(before) + delta),
            Goal('counts_exact_with_updated_ledger', m.g_refs(ext=ext2)),
            Goal('nodes_unchanged', m.g_frame()),
            Goal('reduced_ordered', m.g_inv_struct()),
            Goal('warn_only_at_zero',
                 (z3.Select(st0.RF, au) <= 0) if warned else
                 (z3.BoolVal(True) if op == 'incref' else z3.Select(st0.RF, au) > 0)),
        ]
        res = base.discharge(goals, [], extract)
        return dict(outcome=op + ('_warned' if warned else ''), goals=res,
                    witness=base.witness(extract),
                    expect=dict(outcome='returned', warned=warned))


def replay(case):
    B = concrete.fresh_dd()
    ext = concrete.ext_of(case)
    bad0 = concrete.check_inv(concrete.install(case), ext)
    if bad0:
        return dict(violates=False, invalid_pre=True, detail=str(bad0[:3]))
    bdd = concrete.install(case, B)
    a = case['args']
    u, op = a['u'], a['op']
    n0 = bdd._ref[abs(u)]
    with warnings.catch_warnings(record=True) as wl:
        warnings.simplefilter('always')
        try:
            getattr(bdd, op)(u)
        except Exception as e:
            return dict(violates=True, key='refs/raises', detail=f'{op}({u}) raised {e!r}', observed={})
    warned = bool(wl)
    obs = dict(outcome='returned', warned=warned)
    delta = 1 if op == 'incref' else (0 if n0 <= 0 else -1)
    if bdd._ref[abs(u)] != n0 + delta or bdd.ref(u) != n0 + delta:
        return dict(violates=True, key='refs/wrong-count',
                    detail=f'{op}({u}): count {n0} -> {bdd._ref[abs(u)]}', observed=obs)
    ext[abs(u)] = ext.get(abs(u), 0) + delta
    bad = concrete.check_inv(bdd, ext)
    if bad:
        return dict(violates=True, key='refs/invariant:' + bad[0].split()[0], detail='; '.join(bad[:3]), observed=obs)
    if op == 'decref' and (n0 <= 0) != warned:
        return dict(violates=True, key='refs/warning', detail=f'decref({u}) at count {n0}: warned={warned}', observed=obs)
    return dict(violates=False, detail='ok', observed=obs)
