"""C17: an operation that raises leaves the manager and all references intact.

Each path: an arbitrary valid manager (symbolic tables, counts with a ledger),
dynamic reordering off or on; one rejected call (the kind is iterated, the
operands are symbolic); then the checks *right after the exception*: the
tables are unchanged (or, where the call legitimately works before failing,
still a valid state in which every old node is unchanged), counts exact, the
order maps are a bijection, the reordering flags are as before; and *after the
next successful call*: a follow-up operation -- during which a reordering
request may fire at any node creation -- returns the right function and the
internal signal does not escape.  `ite` / `find_or_add` are contract stubs
(that may request reordering, see dynreorder)."""
import z3

from .. import engine, base, concrete, oracle, hcont
from ..engine import SymInt, _z
from ..mgr import SymMgr, nodel_class
from ..state import state_equal
from ..stubs import assume_canon_real
from ..base import Goal
from .dynreorder import ReoWorld, consts_of
from .k6_autoref_ops import make_autoref
from .k10_addvar import views_consistent
from .pickle_rt import MemFile, MemPickle

FUNCTIONS = ['dd.bdd.BDD.apply', 'dd._utils.assert_operator_arity', 'dd.bdd.BDD.let',
             'dd.bdd.BDD.cofactor', 'dd.bdd.BDD.compose', 'dd.bdd.BDD.rename', 'dd.bdd.rename',
             'dd.bdd.BDD.quantify', 'dd.bdd.BDD._map_to_level', 'dd.bdd.BDD._assert_keys_are_levels',
             'dd.bdd.BDD.var', 'dd.bdd.BDD.level_of_var', 'dd.bdd.BDD.var_at_level',
             'dd.bdd.BDD.to_expr', 'dd.bdd.BDD._add_int', 'dd.bdd.BDD.count', 'dd.bdd.BDD.pick_iter',
             'dd.bdd.BDD.cube', 'dd.bdd.BDD.add_expr', 'dd._parser.add_expr',
             'dd._parser._Translator.parse', 'dd._parser._Translator._reset_state',
             'dd.bdd.BDD.dump', 'dd.bdd.BDD.load', 'dd.bdd.reorder', 'dd.bdd._sort_to_order',
             'dd.bdd._try_to_reorder', 'dd.bdd._ReorderingContext.__exit__',
             'dd.autoref.BDD.apply', 'dd.autoref.BDD.ite', 'dd.autoref.BDD.__contains__',
             'dd.autoref.Function._apply', 'dd.autoref.BDD.add_expr', 'dd.bdd.BDD.add_var',
             'dd.bdd.BDD._check_var', 'dd.bdd.BDD._next_free_level', 'dd.autoref.BDD.add_var']
STUBS = ['ite / find_or_add -> contracts that may request reordering (see dynreorder)']

KINDS = ['apply_unknown_op', 'apply_arity', 'apply_foreign', 'let_undeclared_bool', 'let_undeclared_fn',
         'let_undeclared_name', 'let_bad_value', 'quantify_undeclared', 'var_undeclared',
         'level_of_var', 'var_at_level', 'to_expr_foreign', 'add_int_foreign', 'count_foreign',
         'count_small_n', 'pick_foreign', 'cube_undeclared', 'expr_syntax', 'expr_undeclared',
         'expr_dangling_node', 'dump_unknown_type', 'load_unknown_type', 'reorder_bad_order',
         'autoref_foreign_function', 'configure_unknown', 'load_conflicting_levels',
         'autoref_load_conflicting_levels', 'autoref_expr_undeclared', 'autoref_expr_syntax',
         'autoref_expr_dangling_node', 'add_var_occupied_level', 'add_var_other_level',
         'autoref_add_var_occupied_level']
AUTOREF_EXPR = {'autoref_expr_undeclared': '(a \\/ ~ b) /\\ zz', 'autoref_expr_syntax': '(a => b) /\\ /\\ b',
                'autoref_expr_dangling_node': '(a \\/ b) /\\ @%d'}


class Harness:
    name = 'C17.rejected-calls'
    mode = 'M'

    def __init__(self, N=3, L=2, kinds=None, fires=1):
        self.N, self.L, self.fires = N, L, fires
        self.kinds = kinds or KINDS

    def install(self):
        self.B = base.import_dd('dd.bdd')
        self.A = base.import_dd('dd.autoref')
        self.P = base.import_dd('dd._parser')
        self.sh = base.Shadow()
        base.std_shadows(self.sh, self.B)
        self.store = {}
        store = self.store
        self.sh.set(self.B, 'open', lambda name, mode='r': MemFile(store, name, mode))
        self.sh.set(self.B, 'pickle', MemPickle(store))

    def run(self):
        c = engine.CTX
        N, L = self.N, self.L
        B, A = self.B, self.A
        kind = self.kinds[c.choose(len(self.kinds), 'kind')]
        reordering = bool(c.choose(2, 'reordering'))
        names = [chr(97 + i) for i in range(L)]
        m = SymMgr(N, 0, L, names=names, with_cache=False, with_refs=True)
        m.assume_pre()
        assume_canon_real(m)
        c.assume(z3.Select(m.st0.P, 2))
        bdd = m.install(B)
        world = ReoWorld(m, B, self.fires if reordering else 0)
        world.install(bdd)
        self.sh.set(B, 'reorder', world.reorder)
        bdd._last_len = 1 if reordering else None
        last_len0 = bdd._last_len
        den = m.den
        u, v = z3.Ints('u v')
        c.assume(m.present0(u))
        c.assume(m.present0(v))
        U, V = SymInt(u), SymInt(v)
        absent = N + 5000
        vars0 = dict(bdd.vars)

        def extract(model):
            case = m.extract(model)
            case['args'] = dict(kind=kind, reordering=reordering, u=base.ev_int(model, u),
                                v=base.ev_int(model, v), fired_at=world.fired_at)
            case['harness'] = 'reject'
            return case

        exc = None
        out = None
        try:
            if kind == 'apply_unknown_op':
                out = bdd.apply('nand', U, V)
            elif kind == 'apply_arity':
                out = bdd.apply('and', U)
            elif kind == 'apply_foreign':
                out = bdd.apply('or', U, absent)
            elif kind == 'let_undeclared_bool':
                out = bdd.let({'zz': True}, U)
            elif kind == 'let_undeclared_fn':
                out = bdd.let({'zz': V}, U)
            elif kind == 'let_undeclared_name':
                out = bdd.let({names[0]: 'zz'}, U)
            elif kind == 'let_bad_value':
                out = bdd.let({names[0]: 1.5}, U)
            elif kind == 'quantify_undeclared':
                out = bdd.quantify(U, {'zz'})
            elif kind == 'var_undeclared':
                out = bdd.var('zz')
            elif kind == 'level_of_var':
                out = bdd.level_of_var('zz')
            elif kind == 'var_at_level':
                out = bdd.var_at_level(L + 3)
            elif kind == 'to_expr_foreign':
                out = bdd.to_expr(absent)
            elif kind == 'add_int_foreign':
                out = bdd._add_int(absent)
            elif kind == 'count_foreign':
                out = bdd.count(absent)
            elif kind == 'count_small_n':
                c.assume(oracle.bv_depends(den, den.s(u), 0))
                out = bdd.count(U, 0)
            elif kind == 'pick_foreign':
                out = list(bdd.pick_iter(absent))
            elif kind == 'cube_undeclared':
                out = bdd.cube({names[0]: True, 'zz': False})
            elif kind == 'expr_syntax':
                out = bdd.add_expr('a /\\ /\\ b')
            elif kind == 'expr_undeclared':
                out = bdd.add_expr('(a \\/ ~ b) /\\ zz')
            elif kind == 'expr_dangling_node':
                out = bdd.add_expr('a /\\ @%d' % absent)
            elif kind == 'dump_unknown_type':
                out = bdd.dump('file.xyz', [U])
            elif kind == 'load_unknown_type':
                out = bdd.load('file.xyz')
            elif kind == 'reorder_bad_order':
                self.sh.restore()
                base.std_shadows(self.sh, B)       # the real reorder for this kind
                out = B.reorder(bdd, {names[0]: 0})
            elif kind == 'autoref_foreign_function':
                abdd = make_autoref(A, bdd)
                other = make_autoref(A, nodel_class(B)({nm: i for i, nm in enumerate(names)}))
                fo = other.var(names[0])
                out = abdd.apply('and', A.Function(U, abdd), fo)
            elif kind in AUTOREF_EXPR:
                abdd = make_autoref(A, bdd)
                e = AUTOREF_EXPR[kind]
                out = abdd.add_expr(e % absent if '%d' in e else e)
            elif kind == 'add_var_occupied_level':
                out = bdd.add_var('zz', 0)
            elif kind == 'add_var_other_level':
                out = bdd.add_var(names[0], L - 1)
            elif kind == 'autoref_add_var_occupied_level':
                out = make_autoref(A, bdd).add_var('zz', L - 1)
            elif kind == 'configure_unknown':
                out = bdd.configure(nosuch=1)
            elif kind in ('load_conflicting_levels', 'autoref_load_conflicting_levels'):
                # a file whose variable levels conflict with this manager's; a
                # variable unknown here ('zz') precedes the conflicting one
                self.store['conflict.p'] = dict(
                    vars={'zz': 2, names[1]: 0, names[0]: 1},
                    succ={1: (3, None, None), 2: (0, -1, 1)}, roots=[2])
                if kind == 'load_conflicting_levels':
                    out = bdd.load('conflict.p')
                else:
                    abdd = make_autoref(A, bdd)
                    self.abdd = abdd
                    out = abdd.load('conflict.p')
        except Exception as e:
            exc = e.with_traceback(None)     # frames (and temporaries such as handles) are released
        out = None
        if kind == 'reorder_bad_order':
            self.sh.set(B, 'reorder', world.reorder)
        m.read_post()
        goals = []
        if exc is None:
            res = base.discharge([Goal('call_is_rejected', z3.BoolVal(False))], [], extract)
            return dict(outcome='accepted:' + kind, goals=res)
        escaped = isinstance(exc, B._NeedsReordering)
        goals.append(Goal('failure_is_not_the_internal_signal', z3.BoolVal(not escaped)))
        # right after the exception
        goals.append(Goal('old_nodes_unchanged', z3.And([
            z3.Implies(z3.Select(m.st0.P, k), z3.And(
                z3.Select(m.st.P, k), z3.Select(m.st.LV, k) == z3.Select(m.st0.LV, k),
                z3.Select(m.st.LO, k) == z3.Select(m.st0.LO, k),
                z3.Select(m.st.HI, k) == z3.Select(m.st0.HI, k))) for k in m.ids[1:]])))
        if not kind.endswith('load_conflicting_levels'):
            goals.append(Goal('tables_unchanged', state_equal(m.st0, m.st, m.ids, with_cache=False)))
        goals.append(Goal('counts_exact_same_ledger', m.g_refs()))
        if kind.endswith('load_conflicting_levels'):
            # variables of the file may have been declared before the conflict was met
            ok_order = (all(bdd.vars.get(n) == l for n, l in vars0.items()) and
                        sorted(bdd.vars.values()) == list(range(len(bdd.vars))) and
                        {v: k for k, v in bdd.vars.items()} == dict(bdd._level_to_var))
            if kind.startswith('autoref'):
                ab = self.abdd
                ok_order = ok_order and dict(ab.vars) == dict(ab.var_levels) == dict(bdd.vars)
            goals.append(Goal('order_still_a_bijection_and_views_agree', z3.BoolVal(ok_order)))
        else:
            goals.append(Goal('order_still_a_bijection', z3.BoolVal(
                dict(bdd.vars) == vars0 and views_consistent(bdd))))
        goals.append(Goal('reordering_context_flag_restored', z3.BoolVal(bdd._reordering_context is False)))
        goals.append(Goal('reordering_setting_unchanged', z3.BoolVal(
            (bdd._last_len is None) == (last_len0 is None))))
        goals.append(Goal('no_stale_reference_used', z3.BoolVal(not world.stale_uses)))
        parser = self.P._parsers.get('boolean')
        res = base.discharge(goals, [], extract)
        # after the next successful call
        exc2 = r2 = None
        if kind.endswith('load_conflicting_levels'):
            res += base.discharge([], [], extract)
            wit = base.witness(extract)
            return dict(outcome='rejected:' + kind, goals=res, witness=wit, expect=dict(outcome='returned'))
        try:
            if kind.startswith('expr'):
                r2 = bdd.add_expr('a /\\ ~ b')
                want2 = den.var(0) & ~den.var(1)
            else:
                x = bdd.var(names[0])
                bdd.incref(x)           # operands of dd.bdd calls are referenced by the user
                r2 = bdd.apply('xor', x, U)
                want2 = den.var(0) ^ den.s(u)
        except B._NeedsReordering as e:
            exc2 = e
        except Exception as e:
            exc2 = e
        goals2 = []
        if exc2 is not None:
            goals2.append(Goal('next_call_behaves_normally', z3.BoolVal(False)))
        else:
            rz = _z(r2)
            goals2 += list(world.obligations)
            goals2.append(Goal('next_call_returns_right_function',
                               z3.And(world.present(rz), den.s(rz) == want2)))
            goals2.append(Goal('next_call_uses_no_stale_reference', z3.BoolVal(not world.stale_uses)))
            goals2.append(Goal('reordering_context_flag_restored_after_next',
                               z3.BoolVal(bdd._reordering_context is False)))
            goals2.append(Goal('reordering_still_as_configured', z3.BoolVal(
                (bdd._last_len is None) == (last_len0 is None))))
        res += base.discharge(goals2, [], extract)
        wit = base.witness(extract)
        oc = 'rejected:' + kind + (':fired' if world.fired_at else '')
        return dict(outcome=oc, goals=res, witness=wit, expect=dict(outcome='returned'))


# ---------------------------------------------------------------------------

def _do(kind, bdd, B, A, names, u, v, absent, L):
    if kind == 'apply_unknown_op':
        return bdd.apply('nand', u, v)
    if kind == 'apply_arity':
        return bdd.apply('and', u)
    if kind == 'apply_foreign':
        return bdd.apply('or', u, absent)
    if kind == 'let_undeclared_bool':
        return bdd.let({'zz': True}, u)
    if kind == 'let_undeclared_fn':
        return bdd.let({'zz': v}, u)
    if kind == 'let_undeclared_name':
        return bdd.let({names[0]: 'zz'}, u)
    if kind == 'let_bad_value':
        return bdd.let({names[0]: 1.5}, u)
    if kind == 'quantify_undeclared':
        return bdd.quantify(u, {'zz'})
    if kind == 'var_undeclared':
        return bdd.var('zz')
    if kind == 'level_of_var':
        return bdd.level_of_var('zz')
    if kind == 'var_at_level':
        return bdd.var_at_level(L + 3)
    if kind == 'to_expr_foreign':
        return bdd.to_expr(absent)
    if kind == 'add_int_foreign':
        return bdd._add_int(absent)
    if kind == 'count_foreign':
        return bdd.count(absent)
    if kind == 'count_small_n':
        return bdd.count(u, 0)
    if kind == 'pick_foreign':
        return list(bdd.pick_iter(absent))
    if kind == 'cube_undeclared':
        return bdd.cube({names[0]: True, 'zz': False})
    if kind == 'expr_syntax':
        return bdd.add_expr('a /\\ /\\ b')
    if kind == 'expr_undeclared':
        return bdd.add_expr('(a \\/ ~ b) /\\ zz')
    if kind == 'expr_dangling_node':
        return bdd.add_expr('a /\\ @%d' % absent)
    if kind == 'dump_unknown_type':
        return bdd.dump('file.xyz', [u])
    if kind == 'load_unknown_type':
        return bdd.load('file.xyz')
    if kind == 'reorder_bad_order':
        return B.reorder(bdd, {names[0]: 0})
    if kind == 'autoref_foreign_function':
        from ..mgr import nodel_class
        abdd = make_autoref(A, bdd)
        other = make_autoref(A, nodel_class(B)({nm: i for i, nm in enumerate(names)}))
        return abdd.apply('and', A.Function(u, abdd), other.var(names[0]))
    if kind in AUTOREF_EXPR:
        abdd = make_autoref(A, bdd)
        e = AUTOREF_EXPR[kind]
        return abdd.add_expr(e % absent if '%d' in e else e)
    if kind == 'add_var_occupied_level':
        return bdd.add_var('zz', 0)
    if kind == 'add_var_other_level':
        return bdd.add_var(names[0], L - 1)
    if kind == 'autoref_add_var_occupied_level':
        return make_autoref(A, bdd).add_var('zz', L - 1)
    if kind == 'configure_unknown':
        return bdd.configure(nosuch=1)
    if kind in ('load_conflicting_levels', 'autoref_load_conflicting_levels'):
        import os
        import pickle
        import shutil
        import tempfile
        d = tempfile.mkdtemp(prefix='symdd_c17')
        try:
            fn = os.path.join(d, 'conflict.p')
            with open(fn, 'wb') as f:
                pickle.dump(dict(vars={'zz': 2, names[1]: 0, names[0]: 1},
                                 succ={1: (3, None, None), 2: (0, -1, 1)}, roots=[2]), f, protocol=2)
            if kind == 'load_conflicting_levels':
                return bdd.load(fn)
            abdd = make_autoref(A, bdd)
            bdd._c17_abdd = abdd
            return abdd.load(fn)
        finally:
            shutil.rmtree(d, ignore_errors=True)
    raise KeyError(kind)


def replay(case):
    B = concrete.fresh_dd()
    import dd.autoref as A
    ext = concrete.ext_of(case)
    bad0 = concrete.check_inv(concrete.install(case), ext)
    if bad0:
        return dict(violates=False, invalid_pre=True, detail=str(bad0[:3]))
    a = case['args']
    kind, names, L = a['kind'], case['names'], case['L']
    obs = dict(outcome='returned')
    absent = case['maxid'] + 5000
    last = [None] + list(range(1, len(case['succ']) + 5))
    thresholds = last if a['reordering'] else [None]
    for th in thresholds:
        if a['reordering'] and th is None:
            continue
        bdd = concrete.install(case, B)
        for k in list(bdd._succ):
            bdd._ref[k] += 1
            ext[k] = ext.get(k, 0) + 1
        if a['reordering']:
            bdd.configure(reordering=True)
            bdd._last_len = th
        held = {k: concrete.tt_named(bdd, k, names) for k in bdd._succ}
        before = concrete.snapshot(bdd)
        exc = None
        try:
            _do(kind, bdd, B, A, names, a['u'], a['v'], absent, L)
        except Exception as e:
            exc = e.with_traceback(None)
        import gc
        gc.collect()
        where = f'{kind} (reordering={"_last_len=%s" % th if a["reordering"] else "off"})'
        if exc is None:
            if kind == 'count_small_n' and not concrete.depends_tt(concrete.tt(bdd, a['u']), 0, L):
                ext = concrete.ext_of(case)
                continue
            return dict(violates=True, key=f'reject/{kind}/accepted', detail=f'{where} did not raise', observed=obs)
        if isinstance(exc, B._NeedsReordering):
            return dict(violates=True, key=f'reject/{kind}/signal-escapes', detail=where, observed=obs)
        ab = getattr(bdd, '_c17_abdd', None)
        if ab is not None:
            ok = dict(ab.vars) == dict(ab.var_levels) == dict(bdd.vars)
            try:
                ab.declare('yy')
                ok = ok and 'yy' in ab.vars and ab.var('yy') is not None
            except Exception:
                ok = False
            if not ok:
                return dict(violates=True, key=f'reject/{kind}/order-views-disagree',
                            detail=f'{where}: after the rejected load, autoref vars {dict(ab.vars)} vs var_levels {dict(ab.var_levels)}',
                            observed=obs)
        for k, t in held.items():
            if k not in bdd._succ or concrete.tt_named(bdd, k, names) != t:
                return dict(violates=True, key=f'reject/{kind}/reference-changed',
                            detail=f'{where}: node {k} no longer denotes the same function', observed=obs)
        bad = concrete.check_inv(bdd, None)
        if bad:
            return dict(violates=True, key=f'reject/{kind}/invariant:' + bad[0].split()[0],
                        detail=f'{where}: ' + '; '.join(bad[:3]), observed=obs)
        # counts: exact for the nodes that existed before (no handle leaked)
        for k in before['ref']:
            if k in bdd._ref and bdd._ref[k] != before['ref'][k]:
                # a count may differ only by edges from nodes created before the failure
                indeg_new = sum(1 for kk, (lv, lo, hi) in bdd._succ.items()
                                if kk not in before['succ'] and lo is not None
                                for ch in (lo, hi) if abs(ch) == k)
                if bdd._ref[k] != before['ref'][k] + indeg_new:
                    return dict(violates=True, key=f'reject/{kind}/count-leak',
                                detail=f'{where}: count of node {k} went {before["ref"][k]} -> {bdd._ref[k]}', observed=obs)
        if bdd.configure()['reordering'] != bool(a['reordering']):
            return dict(violates=True, key=f'reject/{kind}/reordering-setting-changed',
                        detail=f'{where}: configure() now reports {bdd.configure()}', observed=obs)
        # follow-up valid operations, with the threshold low so that a request fires
        try:
            if a['reordering']:
                bdd._last_len = 1
            x = bdd.var(names[0])
            bdd.incref(x)
            r = bdd.apply('xor', x, a['u'])
            bdd.incref(r)
            e2 = bdd.add_expr('a /\\ ~ b')
            bdd.collect_garbage()
        except Exception as e:
            return dict(violates=True, key=f'reject/{kind}/next-call-fails',
                        detail=f'after {where}, a valid call raised {e!r}', observed=obs)
        if a['reordering'] and bdd.configure()['reordering'] is not True:
            return dict(violates=True, key=f'reject/{kind}/reordering-lost', detail=where, observed=obs)
        for k, t in held.items():
            if k not in bdd._succ or concrete.tt_named(bdd, k, names) != t:
                return dict(violates=True, key=f'reject/{kind}/reference-changed-later',
                            detail=f'after {where} and follow-up calls: node {k} changed', observed=obs)
        ext = concrete.ext_of(case)
    return dict(violates=False, detail='ok', observed=obs)
