"""C07 end to end (thorough tier): the real `reorder(bdd, order)`,
`reorder(bdd)` (sifting) and `reorder_to_pairs` completely unstubbed (real
swap, collector, find_or_add) on a small symbolic manager: every externally
referenced node keeps its number, its function by name and its count; the
manager stays canonical; the requested order is reached / sifting does not
grow the manager."""
import itertools

import z3

from .. import engine, base, concrete, hcont, oracle
from ..engine import SymInt, _z
from ..mgr import SymMgr
from ..state import Den
from ..base import Goal
from .sched import HSetPerm

FUNCTIONS = ['dd.bdd.reorder', 'dd.bdd._sort_to_order', 'dd.bdd._apply_sifting', 'dd.bdd._reorder_var',
             'dd.bdd._shift', 'dd.bdd.reorder_to_pairs', 'dd.bdd.BDD.swap', 'dd.bdd.BDD.collect_garbage',
             'dd.bdd.BDD.find_or_add', 'dd.bdd.BDD._levels']

KINDS = ['to_order', 'sift', 'to_pairs']


class HSetConc(HSetPerm):
    """node numbers stored in the level index are made concrete (`swap`
    dispatches on `case int()` for them)"""

    def add(self, k):
        if isinstance(k, SymInt):
            k = int(k)
        return HSetPerm.add(self, k)


class Harness:
    name = 'C07.reorder-end-to-end'
    mode = 'U'

    def __init__(self, N=3, L=3, K=2, kinds=None):
        self.N, self.L, self.K = N, L, K
        self.kinds = kinds or KINDS

    def install(self):
        self.B = base.import_dd('dd.bdd')
        self.sh = base.Shadow()
        base.std_shadows(self.sh, self.B, hset=HSetConc)
        self.wrec = base.WarnRec()
        self.sh.set(self.B, 'warnings', self.wrec)

    def run(self):
        c = engine.CTX
        N, L = self.N, self.L
        B = self.B
        kind = self.kinds[c.choose(len(self.kinds), 'kind')]
        m = SymMgr(N, self.K, L, with_cache=True, cache_model='assoc', cache_entries=1)
        m.assume_pre()
        bdd = m.install(B)
        st0, st, den, ext = m.st0, m.st, m.den, m.ext
        self.wrec.msgs = []
        names = m.names
        perms = list(itertools.permutations(names))
        target = pairs = None
        if kind == 'to_order':
            target = list(perms[1 + c.choose(len(perms) - 1, 'target')])
        elif kind == 'to_pairs':
            cand = [(a, b) for a in names for b in names if a != b]
            a, b = cand[c.choose(len(cand), 'pair')]
            pairs = {a: b}
        n0 = m.succ.symlen()

        def extract(model):
            case = m.extract(model)
            case['args'] = dict(kind=kind, target=target, pairs=pairs)
            case['harness'] = 'reorder_e2e'
            return case

        exc = None
        try:
            if kind == 'to_order':
                B.reorder(bdd, {nm: i for i, nm in enumerate(target)})
            elif kind == 'sift':
                B.reorder(bdd)
            else:
                B.reorder_to_pairs(bdd, pairs)
        except Exception as e:
            exc = e
        m.read_post()
        if exc is not None:
            res = base.discharge([Goal('reordering_never_raises', z3.BoolVal(False))], [], extract)
            return dict(outcome='raised:' + type(exc).__name__, goals=res)
        order = [bdd._level_to_var[i] for i in range(L)]
        perm = [order.index(nm) for nm in names]          # old level i -> new level
        den2 = Den(L, '2')
        ax = den2.axioms(st, m.ids2)
        keep = []
        for k in m.ids:
            held = z3.And(z3.Select(st0.P, k), z3.Select(ext, k) > 0)
            keep.append(z3.Implies(held, z3.And(
                z3.Select(st.P, k),
                z3.Select(den2.D, k) == oracle.bv_permute(den, z3.Select(den.D, k), perm))))
        ok_maps = (sorted(bdd.vars.values()) == list(range(L)) and
                   {v: k for k, v in bdd.vars.items()} == dict(bdd._level_to_var))
        goals = [
            Goal('held_nodes_keep_number_and_function', z3.And(keep)),
            Goal('reduced_ordered', m.g_inv_struct()),
            Goal('unique_table_sound', m.g_pred_sound()),
            Goal('counts_exact_same_ledger', m.g_refs()),
            Goal('order_maps_a_bijection', z3.BoolVal(ok_maps)),
            Goal('cache_names_no_freed_node', m.g_cache_sound()),
            Goal('no_decref_warning', z3.BoolVal(not self.wrec.msgs)),
        ]
        if kind == 'to_order':
            goals.append(Goal('requested_order_reached', z3.BoolVal(order == target)))
        elif kind == 'to_pairs':
            goals.append(Goal('requested_pair_adjacent', z3.BoolVal(
                all(abs(bdd.vars[x] - bdd.vars[y]) == 1 for x, y in pairs.items()))))
        else:
            goals.append(Goal('sifting_never_grows', m.succ.symlen() <= n0))
        res = base.discharge(goals, ax, extract)
        wit = base.witness(extract)
        return dict(outcome='reordered:' + kind, goals=res, witness=wit, expect=dict(outcome='returned'))


def replay(case):
    B = concrete.fresh_dd()
    ext = concrete.ext_of(case)
    bad0 = concrete.check_inv(concrete.install(case), ext)
    if bad0:
        return dict(violates=False, invalid_pre=True, detail=str(bad0[:3]))
    bdd = concrete.install(case, B)
    names = case['names']
    L = case['L']
    a = case['args']
    held = [k for k, e in ext.items() if e > 0 and k in bdd._succ]
    tts = {k: concrete.tt_named(bdd, k, names) for k in held}
    obs = dict(outcome='returned')
    n0 = None
    try:
        if a['kind'] == 'to_order':
            B.reorder(bdd, {nm: i for i, nm in enumerate(a['target'])})
        elif a['kind'] == 'sift':
            bdd.collect_garbage()
            n0 = len(bdd)
            B.reorder(bdd)
        else:
            B.reorder_to_pairs(bdd, a['pairs'])
    except Exception as e:
        return dict(violates=True, key='reorder/raises', detail=f'{a} raised {e!r}', observed=obs)
    for k in held:
        if k not in bdd._succ or concrete.tt_named(bdd, k, names) != tts[k]:
            return dict(violates=True, key='reorder/held-node-changed', detail=f'{a}: node {k}', observed=obs)
    bad = concrete.check_inv(bdd, ext)
    if bad:
        return dict(violates=True, key='reorder/invariant:' + bad[0].split()[0], detail='; '.join(bad[:3]), observed=obs)
    order = [bdd._level_to_var[i] for i in range(L)]
    if a['kind'] == 'to_order' and order != a['target']:
        return dict(violates=True, key='reorder/wrong-order', detail=f'{order} != {a["target"]}', observed=obs)
    if a['kind'] == 'to_pairs' and not all(abs(bdd.vars[x] - bdd.vars[y]) == 1 for x, y in a['pairs'].items()):
        return dict(violates=True, key='reorder/pairs-not-adjacent', detail=str(bdd.vars), observed=obs)
    if n0 is not None and len(bdd) > n0:
        return dict(violates=True, key='reorder/sifting-grows', detail=f'{n0} -> {len(bdd)}', observed=obs)
    return dict(violates=False, detail='ok', observed=obs)
