"""C05 round trip: the real `BDD.to_expr/_to_expr` on a symbolic manager
(read-only), then the produced (concrete) string through the *real*
`add_expr` (real lexer, real LALR parser, real translator, real `apply` and
`var`) on the same manager with `ite` / `find_or_add` as contract stubs.
The result must denote den(u); with the canonicity axioms of the stub
contract (lemma 4.4) that makes it the same reference.  Also for
`dd.autoref` (to_expr / add_expr of the wrapper)."""
import z3

from .. import engine, base, concrete
from ..engine import SymInt, _z
from ..mgr import SymMgr
from ..stubs import StubWorld, assume_canon_real
from ..base import Goal
from .k6_autoref_ops import make_autoref

FUNCTIONS = ['dd.bdd.BDD.to_expr', 'dd.bdd.BDD._to_expr', 'dd.bdd.BDD.add_expr',
             'dd._parser.add_expr', 'dd._parser._Translator.parse', 'dd.bdd.BDD.apply',
             'dd.bdd.BDD.var', 'dd.autoref.BDD.to_expr', 'dd.autoref.BDD.add_expr',
             'dd.autoref.Function.to_expr']
STUBS = ['BDD.ite -> contract (K3/K4)', 'BDD.find_or_add -> contract (K1)']


class Harness:
    name = 'C05.roundtrip'
    mode = 'M'

    def __init__(self, N=4, L=2, flavour='bdd'):
        self.N, self.L, self.flavour = N, L, flavour

    def install(self):
        self.B = base.import_dd('dd.bdd')
        self.A = base.import_dd('dd.autoref')
        self.sh = base.Shadow()
        base.std_shadows(self.sh, self.B)

    def run(self):
        c = engine.CTX
        m = SymMgr(self.N, 0, self.L, with_cache=False, with_refs=False)
        m.assume_pre()
        assume_canon_real(m)
        for k in m.ids:
            c.assume(z3.Select(m.st0.RP, k) == z3.Select(m.st0.P, k))
            c.assume(z3.Select(m.st0.RF, k) >= 0)
        bdd = m.install(self.B)
        world = StubWorld(m)
        world.install(bdd)
        den = m.den
        u = z3.Int('u')
        c.assume(m.present0(u))
        text = [None]

        def extract(model):
            case = m.extract(model)
            case['args'] = dict(u=base.ev_int(model, u), flavour=self.flavour)
            case['harness'] = 'roundtrip'
            return case

        exc = r = None
        try:
            if self.flavour == 'bdd':
                text[0] = bdd.to_expr(SymInt(u))
                r = bdd.add_expr(text[0])
            else:
                abdd = make_autoref(self.A, bdd)
                fu = self.A.Function(SymInt(u), abdd)
                text[0] = abdd.to_expr(fu)
                t2 = fu.to_expr()
                if t2 != text[0]:
                    raise AssertionError('Function.to_expr differs from BDD.to_expr')
                r = abdd.add_expr(text[0]).node
        except Exception as e:
            exc = e
        if exc is not None:
            res = base.discharge([Goal('round_trip_never_raises', z3.BoolVal(False))], [], extract)
            return dict(outcome='raised:' + type(exc).__name__, goals=res)
        rz = _z(r)
        goals = list(world.obligations)
        goals.append(Goal('add_expr_of_to_expr_same_function', den.s(rz) == den.s(u)))
        goals.append(Goal('add_expr_of_to_expr_same_reference', rz == u))
        res = base.discharge(goals, [], extract)
        wit = base.witness(extract)
        return dict(outcome='round_trip', goals=res, witness=wit,
                    expect=dict(outcome='returned', text=text[0]))


def replay(case):
    B = concrete.fresh_dd()
    import dd.autoref as A
    case = dict(case)
    case.pop('ref', None)
    bad0 = concrete.check_inv(concrete.install(case), None)
    if bad0:
        return dict(violates=False, invalid_pre=True, detail=str(bad0[:3]))
    bdd = concrete.install(case, B)
    u = case['args']['u']
    obs = dict(outcome='returned')
    try:
        if case['args']['flavour'] == 'bdd':
            text = bdd.to_expr(u)
            r = bdd.add_expr(text)
        else:
            abdd = make_autoref(A, bdd)
            fu = A.Function(u, abdd)
            text = abdd.to_expr(fu)
            r = abdd.add_expr(text).node
    except Exception as e:
        return dict(violates=True, key='roundtrip/raises', detail=f'round trip of {u} raised {e!r}',
                    observed=dict(outcome='raised'))
    obs['text'] = text
    if r != u:
        return dict(violates=True, key='roundtrip/different-reference',
                    detail=f'add_expr(to_expr({u})) = add_expr({text!r}) = {r}', observed=obs)
    return dict(violates=False, detail='ok', observed=obs)
