"""C10: the real `support/_support`, `is_essential`, `count/_sat_len`,
`pick_iter/_sat_iter/_enumerate_minterms`, `pick` on an arbitrary valid
manager.  Read-only, so no stubs at all (mode U)."""
import itertools

import z3

from .. import engine, base, concrete, oracle
from ..engine import SymInt, SymBool, _z
from ..mgr import SymMgr
from ..state import state_equal
from ..base import Goal

FUNCTIONS = ['dd.bdd.BDD.support', 'dd.bdd.BDD._support', 'dd.bdd.BDD.is_essential',
             'dd.bdd.BDD.count', 'dd.bdd.BDD._sat_len', 'dd.bdd.BDD.pick_iter',
             'dd.bdd.BDD._sat_iter', 'dd.bdd._enumerate_minterms', 'dd._abc.BDD.pick',
             'dd.bdd.BDD.level_of_var', 'dd.bdd.BDD.var_at_level']
STUBS = ['BDD._assert_int -> identity (a pure Python-type assertion)']

KINDS = ['support', 'essential', 'count', 'pick_iter', 'pick']
# 'count_after_count': an earlier count on another node of the same manager must not influence the next one
ALL_KINDS = KINDS + ['count_after_count']
EXTRA = [None, -1, 0, 1, 3]


class ViaAutoref:
    """the same calls through dd.autoref.BDD with a Function operand (the
    handle is built without touching the counts: the harness owns none)"""

    def __init__(self, A, bdd):
        self.A = A
        ab = base.make_autoref(A, bdd)
        self.ab = ab

    def F(self, u):
        f = self.A.Function.__new__(self.A.Function)
        f.node, f.bdd, f.manager = u, self.ab, self.ab._bdd
        return f

    def _call(self, name, u, *a, **kw):
        f = self.F(u)
        try:
            r = getattr(self.ab, name)(f, *a, **kw)
            if name == 'pick_iter':
                r = list(r)
            return r
        finally:
            f.node = None               # no decref on disposal

    def support(self, u, *a, **kw):
        if not a and not kw:
            f = self.F(u)
            try:
                s1 = f.support            # Function.support agrees with BDD.support
            finally:
                f.node = None
            s2 = self._call('support', u)
            if set(s1) != set(s2):
                raise AssertionError(('Function.support differs from BDD.support', s1, s2))
            return s2
        return self._call('support', u, *a, **kw)

    def count(self, u, *a, **kw):
        return self._call('count', u, *a, **kw)

    def pick(self, u, *a, **kw):
        return self._call('pick', u, *a, **kw)

    def pick_iter(self, u, *a, **kw):
        return self._call('pick_iter', u, *a, **kw)


class Harness:
    name = 'C10.count-pick-support'
    mode = 'U'

    def __init__(self, N=4, L=2, kinds=None, via=None, decl='choose'):
        self.N, self.L = N, L
        self.decl = decl
        self.kinds = kinds or KINDS
        self.via = via or ['bdd']

    def install(self):
        self.B = base.import_dd('dd.bdd')
        self.A = base.import_dd('dd.autoref')
        self.sh = base.Shadow()
        base.std_shadows(self.sh, self.B)

    def run(self):
        c = engine.CTX
        N, L = self.N, self.L
        kind = self.kinds[c.choose(len(self.kinds), 'kind')]
        # names whose alphabetical order differs from the level order
        m = SymMgr(N, 0, L, names=['c', 'a', 'd', 'b'][:L], with_cache=False, with_refs=False)
        m.decl = self.decl
        m.assume_pre()
        bdd = m.install(self.B)
        bdd._assert_int = lambda x: x
        via = self.via[c.choose(len(self.via), 'via')] if len(self.via) > 1 else self.via[0]
        if via == 'autoref' and kind == 'essential':
            raise engine.Abort()           # dd.autoref has no is_essential
        T = bdd if via == 'bdd' else ViaAutoref(self.A, bdd)
        den = m.den
        names = m.names
        u = z3.Int('u')
        c.assume(m.present0(u))
        f = den.s(u)
        dep = [oracle.bv_depends(den, f, i) for i in range(L)]
        arg = None
        if kind == 'essential':
            arg = c.choose(L + 1, 'name')
        elif kind == 'count':
            arg = EXTRA[c.choose(len(EXTRA), 'extra')]
        elif kind in ('pick_iter', 'pick'):
            subs = [None] + [list(s) for k in range(L + 1)
                             for s in itertools.combinations(range(L), k)]
            arg = subs[c.choose(len(subs), 'care')]

        w0 = z3.Int('w0')
        if kind == 'count_after_count':
            c.assume(m.present0(w0))
        else:
            c.assume(w0 == 1)

        def extract(model):
            case = m.extract(model)
            case['args'] = dict(kind=kind, arg=arg, u=base.ev_int(model, u), via=via, w0=base.ev_int(model, w0))
            case['harness'] = 'sat'
            return case

        goals = []
        expect = dict(outcome='returned')
        exc = None
        try:
            if kind == 'support':
                supp = T.support(SymInt(u))
                for i in range(L):
                    goals.append(Goal(f'support_has_{i}_iff_depends',
                                      dep[i] if names[i] in supp else z3.Not(dep[i])))
                lv = T.support(SymInt(u), as_levels=True)
                goals.append(Goal('support_as_levels_agrees',
                                  z3.BoolVal(sorted(int(x) for x in lv) ==
                                             sorted(names.index(s) for s in supp))))
                expect['result'] = sorted(supp)
            elif kind == 'essential':
                nm = names[arg] if arg < L else 'undeclared_zz'
                r = bdd.is_essential(SymInt(u), nm)
                r = bool(r)
                want = dep[arg] if arg < L else z3.BoolVal(False)
                goals.append(Goal('is_essential_iff_depends', want if r else z3.Not(want)))
                expect['result'] = r
            elif kind == 'count_after_count':
                first = T.count(SymInt(w0))
                goals.append(Goal('first_count_is_number_of_models',
                                  _z(first) * 2 ** L == oracle.bv_popcount(den, den.s(w0)) *
                                  2 ** len(T.support(SymInt(w0)))))
                supp = T.support(SymInt(u))
                cnt = T.count(SymInt(u))
                goals.append(Goal('count_after_an_earlier_count_is_number_of_models',
                                  _z(cnt) * 2 ** L == oracle.bv_popcount(den, f) * 2 ** len(supp)))
                expect['result'] = None
            elif kind == 'count':
                supp = T.support(SymInt(u))
                n = None if arg is None else len(supp) + arg
                try:
                    cnt = T.count(SymInt(u), n)
                    nn = len(supp) if n is None else n
                    goals.append(Goal('count_accepted_only_if_n_covers_support',
                                      z3.BoolVal(nn >= len(supp))))
                    goals.append(Goal('count_is_number_of_models',
                                      _z(cnt) * 2 ** L == oracle.bv_popcount(den, f) * 2 ** nn))
                    expect['result'] = None
                except ValueError:
                    goals.append(Goal('count_refused_only_if_n_too_small',
                                      z3.BoolVal(n is not None and n < len(supp))))
                    expect['outcome'] = 'raised:ValueError'
            else:
                care = None if arg is None else {names[i] for i in arg}
                if kind == 'pick':
                    p = T.pick(SymInt(u), care)
                    goals.append(Goal('pick_none_iff_false',
                                      (f == den.zero) if p is None else (f != den.zero)))
                    cubes = [] if p is None else [p]
                else:
                    cubes = list(T.pick_iter(SymInt(u), care))
                supp = T.support(SymInt(u))
                masks = []
                ok_keys = True
                for cube in cubes:
                    mk = den.ones
                    for nm, val in cube.items():
                        x = den.varbv[names.index(nm)]
                        mk = mk & (x if val else ~x)
                    masks.append(mk)
                    keys = set(cube)
                    if care is None:
                        ok_keys = ok_keys and keys == set(supp)
                    else:
                        ok_keys = ok_keys and care <= keys and keys <= (care | set(supp))
                goals.append(Goal('each_assignment_satisfies_u_however_completed',
                                  z3.And([(mk & ~f) == den.zero for mk in masks] or [z3.BoolVal(True)])))
                goals.append(Goal('assignments_mention_care_variables', z3.BoolVal(ok_keys)))
                if kind == 'pick_iter':
                    dis = [(a & b) == den.zero for a, b in itertools.combinations(masks, 2)]
                    goals.append(Goal('assignments_never_overlap', z3.And(dis or [z3.BoolVal(True)])))
                    un = den.zero
                    for mk in masks:
                        un = un | mk
                    goals.append(Goal('assignments_cover_all_models', un == f))
                    if care is None:
                        cnt = T.count(SymInt(u))
                        goals.append(Goal('default_yields_count_many', _z(cnt) == len(cubes)))
                expect['result'] = sorted(sorted(cb.items()) for cb in cubes)
        except Exception as e:
            exc = e
        m.read_post()
        if exc is not None:
            res = base.discharge([Goal('accepts_valid_arguments', z3.BoolVal(False))], [], extract)
            return dict(outcome='raised:' + type(exc).__name__, goals=res)
        goals.append(Goal('manager_unchanged', state_equal(m.st0, m.st, m.ids, with_cache=False)))
        res = base.discharge(goals, [], extract)
        wit = base.witness(extract)
        return dict(outcome='returned:' + kind, goals=res, witness=wit, expect=expect)


def replay(case):
    B = concrete.fresh_dd()
    L = case['L']
    case = dict(case)
    case.pop('ref', None)
    bad0 = concrete.check_inv(concrete.install(case), None)
    if bad0:
        return dict(violates=False, invalid_pre=True, detail=str(bad0[:3]))
    bdd = concrete.install(case, B)
    a = case['args']
    names = case['names']
    kind, arg, u = a['kind'], a['arg'], a['u']
    if a.get('via') == 'autoref':
        import dd.autoref as A
        T = ViaAutoref(A, bdd)
    else:
        T = bdd
    f = concrete.tt(bdd, u)
    dep = [concrete.depends_tt(f, i, L) for i in range(L)]
    supp_true = {names[i] for i in range(L) if dep[i]}
    before = concrete.snapshot(bdd)
    obs = dict(outcome='returned')
    try:
        if kind == 'support':
            s = T.support(u)
            obs['result'] = sorted(s)
            if set(s) != supp_true:
                return dict(violates=True, key='support/wrong',
                            detail=f'support({u}) = {sorted(s)}, function {f:#x} depends on {sorted(supp_true)}', observed=obs)
            lv = T.support(u, as_levels=True)
            if {names[i] for i in lv} != supp_true:
                return dict(violates=True, key='support/levels-wrong', detail=f'support({u}, as_levels) = {lv}', observed=obs)
        elif kind == 'essential':
            nm = names[arg] if arg < L else 'undeclared_zz'
            r = bdd.is_essential(u, nm)
            obs['result'] = bool(r)
            want = dep[arg] if arg < L else False
            if bool(r) != want:
                return dict(violates=True, key='is_essential/wrong',
                            detail=f'is_essential({u}, {nm}) = {r}, function {f:#x}', observed=obs)
        elif kind == 'count_after_count':
            w0 = a.get('w0', 1)
            fw = concrete.tt(bdd, w0)
            kw = sum(1 for i in range(L) if concrete.depends_tt(fw, i, L))
            first = T.count(w0)
            if first * 2 ** L != bin(fw).count('1') * 2 ** kw:
                return dict(violates=True, key='count/wrong', detail=f'count({w0}) = {first}, function {fw:#x}', observed=obs)
            cnt = T.count(u)
            k = len(supp_true)
            if cnt * 2 ** L != bin(f).count('1') * 2 ** k:
                return dict(violates=True, key='count/wrong-after-earlier-count',
                            detail=f'count({w0}) = {first}, then count({u}) = {cnt}, but function {f:#x} has '
                                   f'{bin(f).count("1") * 2 ** k // 2 ** L} models over its support', observed=obs)
        elif kind == 'count':
            k = len(supp_true)
            n = None if arg is None else k + arg
            nn = k if n is None else n
            try:
                cnt = T.count(u, n)
            except ValueError:
                obs['outcome'] = 'raised:ValueError'
                if nn >= k:
                    return dict(violates=True, key='count/refuses-valid-n',
                                detail=f'count({u}, {n}) refused, support size {k}', observed=obs)
                return dict(violates=False, detail='refused', observed=obs)
            if nn < k:
                return dict(violates=True, key='count/accepts-small-n',
                            detail=f'count({u}, {n}) = {cnt} accepted with support size {k}', observed=obs)
            want = bin(f).count('1') * 2 ** nn // 2 ** L
            if cnt != want or (bin(f).count('1') * 2 ** nn) % (2 ** L):
                return dict(violates=True, key='count/wrong',
                            detail=f'count({u}, {n}) = {cnt}, expected {want} (function {f:#x})', observed=obs)
        else:
            care = None if arg is None else {names[i] for i in arg}
            if kind == 'pick':
                p = T.pick(u, care)
                if (p is None) != (f == 0):
                    return dict(violates=True, key='pick/none-iff-false',
                                detail=f'pick({u}) = {p}, function {f:#x}', observed=obs)
                cubes = [] if p is None else [p]
            else:
                cubes = list(T.pick_iter(u, care))
            obs['result'] = sorted(sorted(cb.items()) for cb in cubes)
            masks = []
            for cube in cubes:
                mk = concrete.mask(L)
                for nm, val in cube.items():
                    x = concrete.var_tt(names.index(nm), L)
                    mk &= x if val else (~x & concrete.mask(L))
                masks.append(mk)
                if mk & ~f:
                    return dict(violates=True, key='pick/not-a-model',
                                detail=f'pick_iter({u}, {care}) yields {cube} which does not imply function {f:#x}', observed=obs)
                keys = set(cube)
                if care is None:
                    if keys != supp_true:
                        return dict(violates=True, key='pick/keys', detail=f'{cube} vs support {supp_true}', observed=obs)
                elif not care <= keys:
                    return dict(violates=True, key='pick/misses-care-variable',
                                detail=f'{cube} does not mention all of {care}', observed=obs)
            if kind == 'pick_iter':
                for x, y in itertools.combinations(masks, 2):
                    if x & y:
                        return dict(violates=True, key='pick/overlap',
                                    detail=f'pick_iter({u}, {care}) yields overlapping assignments', observed=obs)
                un = 0
                for mk in masks:
                    un |= mk
                if un != f:
                    return dict(violates=True, key='pick/not-covering',
                                detail=f'pick_iter({u}, {care}) covers {un:#x}, function {f:#x}', observed=obs)
                if care is None and len(cubes) != T.count(u):
                    return dict(violates=True, key='pick/count-mismatch',
                                detail=f'{len(cubes)} assignments, count = {T.count(u)}', observed=obs)
    except Exception as e:
        obs['outcome'] = 'raised:' + type(e).__name__
        return dict(violates=True, key=f'{kind}/raises', detail=f'{kind}({u}, {arg}) raised {e!r}', observed=obs)
    if concrete.snapshot(bdd) != before:
        return dict(violates=True, key=f'{kind}/mutates', detail='read-only call changed the manager', observed=obs)
    return dict(violates=False, detail='ok', observed=obs)
