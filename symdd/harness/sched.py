"""C07 schedulers over the proved contract of `swap` (K7): the real
`reorder`, `_apply_sifting`, `_reorder_var`, `_shift`, `_sort_to_order`,
`reorder_to_pairs` run on a manager whose `swap` exchanges the two entries of
the real `vars` / `_level_to_var` and returns sizes drawn from an
uninterpreted SIZE(order) (justified by canonicity + exact collection: the
number of nodes of a collected canonical manager is a function of the order
only).  SIZE values are symbolic; the iteration order of the name set in
sifting is a nondeterministic choice; the target order / pairing is iterated.
"""
import itertools

import z3

from .. import engine, base, concrete, hcont
from ..engine import SymInt, _z
from ..base import Goal

FUNCTIONS = ['dd.bdd.reorder', 'dd.bdd._apply_sifting', 'dd.bdd._reorder_var',
             'dd.bdd._shift', 'dd.bdd._sort_to_order', 'dd.bdd.reorder_to_pairs',
             'dd.autoref.reorder', 'dd.autoref.BDD.reorder']
STUBS = ['BDD.swap -> contract proved by K7 (exchange order entries; sizes = SIZE(order))',
         'BDD.collect_garbage -> contract proved by K8 (size becomes SIZE(order))',
         'BDD._levels -> opaque index (only passed through to swap)']


class HSetPerm(hcont.HSetDet):
    """set whose iteration order over names is a nondeterministic choice"""

    def __iter__(self):
        items = list(hcont.HSetDet.__iter__(self))
        if len(items) > 1 and all(isinstance(x, str) for x in items):
            perms = list(itertools.permutations(items))
            return iter(perms[engine.CTX.choose(len(perms), 'set-order')])
        return iter(items)


KINDS = ['sift', 'to_order', 'to_pairs', 'autoref_sift', 'autoref_order', 'shift']


def matchings(names):
    out = []
    n = len(names)
    for k in (1, 2):
        for combo in itertools.permutations(names, 2 * k):
            pairs = [(combo[2 * i], combo[2 * i + 1]) for i in range(k)]
            if k == 2 and pairs[0][0] > pairs[1][0]:
                continue
            out.append(dict(pairs))
    return out


class Harness:
    name = 'C07.schedulers'
    mode = 'M'

    def __init__(self, L=3, kinds=None):
        self.L = L
        self.kinds = kinds or KINDS

    def install(self):
        self.B = base.import_dd('dd.bdd')
        self.A = base.import_dd('dd.autoref')
        self.sh = base.Shadow()
        base.std_shadows(self.sh, self.B, hset=HSetPerm)

    def run(self):
        c = engine.CTX
        L = self.L
        kind = self.kinds[c.choose(len(self.kinds), 'kind')]
        names = [chr(97 + i) for i in range(L)]
        perms = list(itertools.permutations(names))
        start = list(perms[c.choose(len(perms), 'start-order')])
        B = self.B
        size = {}
        nswaps = [0]

        def SIZE(order):
            t = tuple(order)
            if t not in size:
                s = z3.Int('SIZE_' + ''.join(t))
                c.assume(s >= 1)
                size[t] = s
            return size[t]

        junk = z3.Int('junk')
        c.assume(junk >= 0)

        class Abs(B.BDD):
            def __del__(self):
                pass

            def order(self):
                return [self._level_to_var[i] for i in range(len(self.vars))]

            def symlen(self):
                return SIZE(self.order()) + (0 if self._collected else junk)

            def collect_garbage(self, roots=None):
                self._collected = True

            def _levels(self):
                return dict(index=True)

            def swap(self, x, y, all_levels=None):
                if all_levels is None:
                    self._collected = True
                if x in self.vars:
                    x = self.vars[x]
                if y in self.vars:
                    y = self.vars[y]
                x, y = int(x), int(y)
                n = len(self.vars)
                if not (0 <= x < n and 0 <= y < n) or abs(x - y) != 1:
                    raise ValueError((x, y))
                if x > y:
                    x, y = y, x
                old = self.symlen()
                vx, vy = self._level_to_var[x], self._level_to_var[y]
                self.vars[vx], self.vars[vy] = y, x
                self._level_to_var[x], self._level_to_var[y] = vy, vx
                self._collected = True      # swap ends with a rooted collection of what it orphaned
                nswaps[0] += 1
                return SymInt(old), SymInt(self.symlen())

        # declared in alphabetical order, levelled as `start`: the declaration order differs from the
        # level order in every start order but one (as after any earlier reordering)
        bdd = Abs({nm: start.index(nm) for nm in sorted(start)})
        bdd._collected = False
        n0 = SIZE(start)
        target = pairs = None
        if kind in ('to_order', 'autoref_order'):
            target = list(perms[c.choose(len(perms), 'target-order')])
        elif kind == 'to_pairs':
            ms = matchings(names)
            pairs = ms[c.choose(len(ms), 'pairs')]
        elif kind == 'shift':
            target = [c.choose(L, 'shift-start'), c.choose(L, 'shift-end')]

        def extract(model):
            case = dict(L=L, start=start, kind=kind, target=target, pairs=pairs,
                        sizes={''.join(t): base.ev_int(model, s) for t, s in size.items()},
                        junk=base.ev_int(model, junk), harness='sched')
            return case

        exc = None
        ret = None
        try:
            if kind == 'sift':
                B.reorder(bdd)
            elif kind == 'to_order':
                B.reorder(bdd, {nm: i for i, nm in enumerate(target)})
            elif kind == 'to_pairs':
                B.reorder_to_pairs(bdd, pairs)
            elif kind == 'shift':
                bdd._collected = True
                ret = B._shift(bdd, target[0], target[1], bdd._levels())
            else:
                abdd = base.make_autoref(self.A, bdd)
                if kind == 'autoref_sift':
                    abdd.reorder()
                else:
                    self.A.reorder(abdd, {nm: i for i, nm in enumerate(target)})
        except Exception as e:
            exc = e
        if exc is not None:
            res = base.discharge([Goal('scheduler_never_raises', z3.BoolVal(False))], [], extract)
            return dict(outcome='raised:' + type(exc).__name__, goals=res)
        order = bdd.order()
        ok_bij = (sorted(bdd.vars.values()) == list(range(L)) and
                  {v: k for k, v in bdd.vars.items()} == dict(bdd._level_to_var))
        goals = [Goal('order_maps_still_a_bijection', z3.BoolVal(ok_bij))]
        if kind in ('sift', 'autoref_sift'):
            goals.append(Goal('sifting_never_grows', SIZE(order) <= n0))
        elif kind in ('to_order', 'autoref_order'):
            goals.append(Goal('requested_order_reached', z3.BoolVal(order == target)))
        elif kind == 'to_pairs':
            adj = all(abs(bdd.vars[x] - bdd.vars[y]) == 1 for x, y in pairs.items())
            goals.append(Goal('requested_pairs_adjacent', z3.BoolVal(adj)))
        else:
            s, e = target
            want = list(start)
            v = want.pop(s)
            want.insert(e, v)
            goals.append(Goal('shift_moves_one_variable', z3.BoolVal(order == want)))
            goals.append(Goal('shift_reports_sizes_of_visited_positions', z3.BoolVal(
                sorted(ret) == list(range(min(s, e), max(s, e) + 1)) if s != e else not ret)))
        res = base.discharge(goals, [], extract)
        wit = base.witness(extract)
        return dict(outcome='done:' + kind, goals=res, witness=wit,
                    expect=dict(outcome='returned'))


def replay(case):
    """Concrete counterpart: a real manager whose numbers of nodes per order
    follow the model cannot be constructed in general, so the model is
    replayed on the same abstraction with concrete sizes; a failure there is
    then confirmed end-to-end by sched_e2e."""
    B = concrete.fresh_dd()
    L, start, kind = case['L'], case['start'], case['kind']
    sizes = case['sizes']

    class Abs(B.BDD):
        def __del__(self):
            pass

        def order(self):
            return [self._level_to_var[i] for i in range(len(self.vars))]

        def __len__(self):
            return sizes.get(''.join(self.order()), 1) + (0 if self._collected else case['junk'])

        def collect_garbage(self, roots=None):
            self._collected = True

        def _levels(self):
            return dict(index=True)

        def swap(self, x, y, all_levels=None):
            if all_levels is None:
                self._collected = True
            x = self.vars.get(x, x)
            y = self.vars.get(y, y)
            n = len(self.vars)
            if not (0 <= x < n and 0 <= y < n) or abs(x - y) != 1:
                raise ValueError((x, y))
            if x > y:
                x, y = y, x
            old = len(self)
            vx, vy = self._level_to_var[x], self._level_to_var[y]
            self.vars[vx], self.vars[vy] = y, x
            self._level_to_var[x], self._level_to_var[y] = vy, vx
            self._collected = True
            return old, len(self)

    bdd = Abs({nm: start.index(nm) for nm in sorted(start)})
    bdd._collected = False
    n0 = sizes.get(''.join(start), 1)
    target, pairs = case['target'], case['pairs']
    obs = dict(outcome='returned')
    try:
        if kind in ('sift', 'autoref_sift'):
            B.reorder(bdd)
        elif kind in ('to_order', 'autoref_order'):
            B.reorder(bdd, {nm: i for i, nm in enumerate(target)})
        elif kind == 'to_pairs':
            B.reorder_to_pairs(bdd, pairs)
        else:
            bdd._collected = True
            B._shift(bdd, target[0], target[1], bdd._levels())
    except Exception as e:
        return dict(violates=True, key='reorder/raises', detail=f'{kind} from {start}: {e!r} (sizes {sizes})', observed=obs)
    order = bdd.order()
    if sorted(bdd.vars.values()) != list(range(L)):
        return dict(violates=True, key='reorder/order-maps', detail=str(bdd.vars), observed=obs)
    if kind in ('sift', 'autoref_sift') and sizes.get(''.join(order), 1) > n0:
        return dict(violates=True, key='reorder/sifting-grows', detail=f'{start} -> {order}, sizes {sizes}', observed=obs)
    if kind in ('to_order', 'autoref_order') and order != target:
        return dict(violates=True, key='reorder/wrong-order', detail=f'{start} -> {order}, wanted {target}', observed=obs)
    if kind == 'to_pairs' and not all(abs(bdd.vars[x] - bdd.vars[y]) == 1 for x, y in pairs.items()):
        return dict(violates=True, key='reorder/pairs-not-adjacent', detail=f'{start} -> {order}, pairs {pairs}', observed=obs)
    if kind == 'shift':
        s, e = target
        want = list(start)
        v = want.pop(s)
        want.insert(e, v)
        if order != want:
            return dict(violates=True, key='reorder/shift', detail=f'{start} shift {s}->{e} gives {order}', observed=obs)
    return dict(violates=False, detail='ok', observed=obs)
