"""C18: structural views are faithful.  Read-only, mode U (no stubs): the real
`Function.var/level/low/high/negated`, `autoref.BDD.succ`, `BDD.succ`,
`descendants`, `len(Function)/dag_size`, `len(bdd)`, `to_nx`, `_to_dot` +
`DotGraph.to_dot` run on a symbolic manager; the exported structure is
evaluated by an independent reader (DOT: solid = then, dashed = else,
taillabel -1 = complement, `ref` layer for the roots) and compared by z3 with
the ghost denotation of the root."""
import re

import z3

from .. import engine, base, concrete, oracle
from ..engine import SymInt, SymBool, _z, _zb
from ..mgr import SymMgr, nodel_class
from ..state import zabs, state_equal
from ..base import Goal
from .k6_autoref_ops import make_autoref

FUNCTIONS = ['dd.autoref.Function.var', 'dd.autoref.Function.level', 'dd.autoref.Function.low',
             'dd.autoref.Function.high', 'dd.autoref.Function.negated', 'dd.autoref.BDD.succ',
             'dd.bdd.BDD.succ', 'dd.bdd.BDD.descendants', 'dd.bdd.BDD._descendants',
             'dd.autoref.Function.__len__', 'dd.autoref.Function.dag_size', 'dd.bdd.BDD.__len__',
             'dd.bdd.to_nx', 'dd.bdd._to_dot', 'dd._utils.DotGraph.to_dot', 'dd._utils.DotGraph.add_edge',
             'dd._utils.DotGraph.add_node']

KINDS = ['expand_function', 'expand_succ', 'descendants', 'to_nx', 'to_dot']


def reach_terms(m, roots):
    """R[k] for k in slots: node k reachable from the roots (bounded fixpoint)"""
    st = m.st0
    N = m.N
    R = {k: z3.Or([zabs(r) == k for r in roots]) for k in m.ids}
    for _ in range(N):
        R2 = {}
        for k in m.ids:
            parents = []
            for j in m.ids:
                if j == 1 or j == k:
                    continue
                parents.append(z3.And(R[j], z3.Select(st.P, j),
                                      z3.Or(zabs(z3.Select(st.LO, j)) == k, z3.Select(st.HI, j) == k)))
            R2[k] = z3.Or([R[k]] + parents)
        R = R2
    R[1] = z3.BoolVal(True)
    return R


def parse_dot(text):
    """independent reader of the DOT text written by dd"""
    nodes = {}
    edges = []
    for line in text.splitlines():
        line = line.strip()
        m = re.match(r'^("?[\w\-]+"?) -> ("?[\w\-]+"?) \[(.*)\];$', line)
        if m:
            a, b, attr = m.groups()
            d = dict(re.findall(r'(\w+)="([^"]*)"', attr))
            edges.append((a.strip('"'), b.strip('"'), d))
            continue
        m = re.match(r'^("?[\w\-]+"?) \[(.*)\];$', line)
        if m:
            a, attr = m.groups()
            nodes.setdefault(a.strip('"'), {}).update(dict(re.findall(r'(\w+)="([^"]*)"', attr)))
    return nodes, edges


def eval_dot(nodes, edges, names, root_label):
    """truth table (by name, bit j = names[j]) of the exported root `@<ref>`"""
    L = len(names)
    succ = {}
    for a, b, d in edges:
        if d.get('style') == 'invis':
            continue
        if (b, d) not in succ.setdefault(a, []):     # identical parallel edges count once
            succ[a].append((b, d))
    refs = [k for k, d in nodes.items() if d.get('label') == root_label]
    if len(refs) != 1:
        raise ValueError(f'root {root_label} appears {len(refs)} times')
    out = 0
    for asg in range(2 ** L):
        cur = refs[0]
        neg = False
        steps = 0
        while True:
            steps += 1
            if steps > 100:
                raise ValueError('cycle')
            lab = nodes.get(cur, {}).get('label', '')
            outs = succ.get(cur, [])
            if cur in refs:
                (b, d), = outs
                if d.get('taillabel') == '-1':
                    neg = not neg
                cur = b
                continue
            var = lab.rsplit('-', 1)[0]
            if var == 'True':
                val = True
                break
            if len(outs) != 2:
                raise ValueError(f'node {cur} has {len(outs)} out-edges')
            val_bit = (asg >> names.index(var)) & 1
            pick = [(b, d) for b, d in outs if (d.get('style') == 'solid') == bool(val_bit)]
            if len(pick) != 1:
                raise ValueError(f'node {cur}: ambiguous edges')
            b, d = pick[0]
            if d.get('taillabel') == '-1':
                if val_bit:
                    raise ValueError('complemented then-edge')
                neg = not neg
            cur = b
        if val != neg:
            out |= 1 << asg
    return out


class Harness:
    name = 'C18.structural-views'
    mode = 'U'

    def __init__(self, N=4, L=2, kinds=None):
        self.N, self.L = N, L
        self.kinds = kinds or KINDS

    def install(self):
        self.B = base.import_dd('dd.bdd')
        self.A = base.import_dd('dd.autoref')
        self.sh = base.Shadow()
        base.std_shadows(self.sh, self.B)
        engine.FORMAT_CONCRETIZE = True      # DOT labels are formatted node numbers

    def run(self):
        c = engine.CTX
        N, L = self.N, self.L
        A, B = self.A, self.B
        kind = self.kinds[c.choose(len(self.kinds), 'kind')]
        names = [chr(97 + i) for i in range(L)]
        m = SymMgr(N, 0, L, names=names, with_cache=False, with_refs=False)
        m.decl = 'choose' if kind in ('to_dot', 'expand_function') else 'identity'
        m.assume_pre()
        for k in m.ids:
            c.assume(z3.Select(m.st0.RP, k) == z3.Select(m.st0.P, k))
            c.assume(z3.Select(m.st0.RF, k) >= 0)
        bdd = m.install(B)
        den = m.den
        W = den.W
        u, v = z3.Ints('u v')
        c.assume(m.present0(u))
        c.assume(m.present0(v))
        real_succ = bdd.succ

        def extract(model):
            case = m.extract(model)
            case['args'] = dict(kind=kind, u=base.ev_int(model, u), v=base.ev_int(model, v))
            case['harness'] = 'views'
            return case

        goals = []
        exc = None
        try:
            if kind in ('expand_function', 'expand_succ'):
                abdd = make_autoref(A, bdd)
                fu = A.Function(SymInt(u), abdd)
                if kind == 'expand_succ':
                    # autoref.BDD.succ dispatches on `case int()`: give it plain ints
                    def succ_int(x):
                        i, lo, hi = real_succ(x)
                        return (i, None if lo is None else int(lo), None if hi is None else int(hi))
                    bdd.succ = succ_int
                    i, lo, hi = abdd.succ(fu)
                    i2, lo2, hi2 = real_succ(SymInt(u))
                    goals.append(Goal('bdd_succ_and_wrapper_succ_agree', z3.And(
                        _z(i) == _z(i2),
                        z3.BoolVal((lo is None) == (lo2 is None)),
                        z3.BoolVal(True) if lo is None else z3.And(_z(lo.node) == _z(lo2), _z(hi.node) == _z(hi2)))))
                    lvl, var = i, None
                else:
                    lo, hi = fu.low, fu.high
                    lvl, var = fu.level, fu.var
                neg = fu.negated
                if lo is None or hi is None:
                    goals.append(Goal('none_exactly_for_the_terminal',
                                      z3.And(zabs(u) == 1, z3.BoolVal(lo is None and hi is None))))
                    if kind == 'expand_function':
                        goals.append(Goal('terminal_has_no_variable', z3.BoolVal(var is None)))
                else:
                    goals.append(Goal('none_exactly_for_the_terminal', zabs(u) != 1))
                    if var is not None:
                        goals.append(Goal('var_is_the_variable_at_level',
                                          z3.BoolVal(var == bdd._level_to_var[int(lvl)])))
                        x = den.var(names.index(var))
                    else:
                        x = den.var(_z(lvl))
                    body = (x & den.s(_z(hi.node))) | (~x & den.s(_z(lo.node)))
                    want = den.s(u)
                    nz = _zb(neg)
                    goals.append(Goal('expansion_on_var_high_low_negated_reproduces_u',
                                      z3.If(nz, ~body, body) == want))
                    goals.append(Goal('negated_is_the_complement_mark', nz == (u < 0)))
            elif kind == 'descendants':
                desc = bdd.descendants([SymInt(u), SymInt(v)])
                R = reach_terms(m, [u, v])
                inset = {k: z3.BoolVal(False) for k in m.ids}
                for x in desc:
                    xz = _z(x)
                    for k in m.ids:
                        inset[k] = z3.Or(inset[k], xz == k)
                goals.append(Goal('descendants_is_the_reachable_set', z3.And([
                    inset[k] == z3.And(z3.Select(m.st0.P, k), R[k]) for k in m.ids])))
                abdd = make_autoref(A, bdd)
                fu = A.Function(SymInt(u), abdd)
                R1 = reach_terms(m, [u])
                cnt = z3.Sum([z3.If(z3.And(z3.Select(m.st0.P, k), R1[k]), 1, 0) for k in m.ids])
                goals.append(Goal('len_of_function_counts_reachable_nodes',
                                  z3.And(cnt == len(fu), cnt == fu.dag_size)))
                goals.append(Goal('len_of_manager_counts_stored_nodes',
                                  m.succ.symlen() == len(bdd._succ)))
            elif kind == 'to_nx':
                g = B.to_nx(bdd, [SymInt(u), SymInt(v)])
                R = reach_terms(m, [u, v])
                nodeset = set(int(x) for x in g.nodes)
                goals.append(Goal('graph_has_exactly_the_reachable_nodes', z3.And([
                    z3.BoolVal(k in nodeset) == z3.And(z3.Select(m.st0.P, k), R[k]) for k in m.ids])))
                # evaluate the exported graph bottom-up
                gden = {}
                order = sorted(nodeset, key=lambda k: -int(g.nodes[k]['level']))
                ok_shape = True
                for k in order:
                    outs = list(g.out_edges(k, data=True))
                    if not outs:
                        gden[k] = den.ones
                        continue
                    th, el = [], []
                    for a_, b_, d_ in outs:
                        tgt = th if bool(d_['value']) else el
                        key = (int(b_), bool(d_['complement']))
                        if key not in [(int(x), bool(y['complement'])) for x, y in tgt]:
                            tgt.append((b_, d_))     # identical parallel edges count once
                    if len(th) != 1 or len(el) != 1:
                        ok_shape = False
                        gden[k] = den.ones
                        continue
                    x = den.var(_z(g.nodes[k]['level']))
                    dt = gden[int(th[0][0])]
                    dt = z3.If(_zb(th[0][1]['complement']), ~dt, dt)
                    de = gden[int(el[0][0])]
                    de = z3.If(_zb(el[0][1]['complement']), ~de, de)
                    gden[k] = (x & dt) | (~x & de)
                goals.append(Goal('every_node_has_one_then_and_one_else_edge', z3.BoolVal(ok_shape)))
                for nm, r in (('u', u), ('v', v)):
                    dr = den.zero
                    for k in nodeset:
                        dr = z3.If(zabs(r) == k, gden[k], dr)
                    goals.append(Goal(f'evaluating_the_graph_from_{nm}_gives_its_function',
                                      z3.If(r < 0, ~dr, dr) == den.s(r)))
            else:
                dg = B._to_dot([SymInt(u), SymInt(v)], bdd)
                text = dg.to_dot()
                nodes, edges = parse_dot(text)
                R = reach_terms(m, [u, v])
                shown = {int(k) for k in nodes if k.isdigit()}
                goals.append(Goal('dot_has_exactly_the_reachable_nodes', z3.And([
                    z3.BoolVal(k in shown) == z3.And(z3.Select(m.st0.P, k), R[k]) for k in m.ids])))
                order_names = [bdd._level_to_var[i] for i in range(L)]
                for nm, r in (('u', u), ('v', v)):
                    rc = int(SymInt(r))
                    try:
                        t = eval_dot(nodes, edges, order_names, f'@{rc}')
                        goals.append(Goal(f'evaluating_the_dot_text_from_{nm}_gives_its_function',
                                          z3.BitVecVal(t, W) == den.s(r)))
                    except ValueError as e:
                        goals.append(Goal(f'dot_text_from_{nm}_is_well_formed', z3.BoolVal(False)))
        except Exception as e:
            exc = e
        m.read_post()
        if exc is not None:
            res = base.discharge([Goal('view_never_raises', z3.BoolVal(False))], [], extract)
            return dict(outcome='raised:' + type(exc).__name__, goals=res)
        res = base.discharge(goals, [], extract)
        wit = base.witness(extract)
        return dict(outcome='viewed:' + kind, goals=res, witness=wit, expect=dict(outcome='returned'))


# ---------------------------------------------------------------------------

def replay(case):
    B = concrete.fresh_dd()
    import dd.autoref as A
    case = dict(case)
    case.pop('ref', None)
    bad0 = concrete.check_inv(concrete.install(case), None)
    if bad0:
        return dict(violates=False, invalid_pre=True, detail=str(bad0[:3]))
    bdd = concrete.install(case, B)
    for k in bdd._succ:
        bdd._ref[k] += 1
    a = case['args']
    kind, u, v = a['kind'], a['u'], a['v']
    names = case['names']
    L = case['L']
    M = concrete.mask(L)
    obs = dict(outcome='returned')
    tt = lambda x: concrete.tt(bdd, x)

    def reach(roots):
        seen = set()
        st = [abs(r) for r in roots]
        while st:
            k = st.pop()
            if k in seen:
                continue
            seen.add(k)
            lv, lo, hi = bdd._succ[k]
            if lo is not None:
                st += [abs(lo), abs(hi)]
        seen.add(1)
        return seen
    try:
        if kind in ('expand_function', 'expand_succ'):
            abdd = make_autoref(A, bdd)
            fu = A.Function(u, abdd)
            if kind == 'expand_succ':
                lvl, lo, hi = abdd.succ(fu)
                if (lvl, None if lo is None else lo.node, None if hi is None else hi.node) != bdd.succ(u):
                    return dict(violates=True, key='views/succ-disagree', detail=f'succ({u})', observed=obs)
                var = None if lo is None else bdd._level_to_var[lvl]
            else:
                lo, hi, lvl, var = fu.low, fu.high, fu.level, fu.var
            if abs(u) == 1:
                if lo is not None or hi is not None or (kind == 'expand_function' and var is not None):
                    return dict(violates=True, key='views/terminal-has-children', detail=str(u), observed=obs)
                return dict(violates=False, detail='ok', observed=obs)
            if lo is None or hi is None:
                return dict(violates=True, key='views/child-missing', detail=f'node {u}', observed=obs)
            x = concrete.var_tt(bdd.vars[var], L)
            body = ((x & tt(hi.node)) | (~x & tt(lo.node))) & M
            if fu.negated:
                body = ~body & M
            if body != tt(u):
                return dict(violates=True, key='views/expansion-wrong',
                            detail=f'expanding {u} on var={var} high={hi.node} low={lo.node} negated={fu.negated} '
                                   f'gives {body:#x}, function is {tt(u):#x}', observed=obs)
        elif kind == 'descendants':
            d = bdd.descendants([u, v])
            if set(d) != reach([u, v]):
                return dict(violates=True, key='views/descendants', detail=f'descendants({[u, v]}) = {sorted(d)}', observed=obs)
            abdd = make_autoref(A, bdd)
            fu = A.Function(u, abdd)
            if len(fu) != len(reach([u])) or fu.dag_size != len(fu) or len(bdd) != len(bdd._succ):
                return dict(violates=True, key='views/sizes', detail=f'len(Function {u}) = {len(fu)}', observed=obs)
        elif kind == 'to_nx':
            g = B.to_nx(bdd, [u, v])
            if set(g.nodes) != reach([u, v]):
                return dict(violates=True, key='views/nx-nodes', detail=f'{sorted(g.nodes)}', observed=obs)
            for r in (u, v):
                for asg in range(2 ** L):
                    cur, neg = abs(r), r < 0
                    steps = 0
                    while g.out_degree(cur):
                        steps += 1
                        if steps > 50:
                            return dict(violates=True, key='views/nx-cycle', detail='', observed=obs)
                        bit = bool((asg >> g.nodes[cur]['level']) & 1)
                        pick = []
                        for _, b, d in g.out_edges(cur, data=True):
                            if bool(d['value']) == bit and (b, d['complement']) not in [(x, y['complement']) for x, y in pick]:
                                pick.append((b, d))
                        if len(pick) != 1:
                            return dict(violates=True, key='views/nx-edges',
                                        detail=f'node {cur} has {len(pick)} edges for value {bit}', observed=obs)
                        if pick[0][1]['complement']:
                            neg = not neg
                        cur = pick[0][0]
                    if (not neg) != bool((tt(r) >> asg) & 1):
                        return dict(violates=True, key='views/nx-evaluates-wrong',
                                    detail=f'to_nx(roots={[u, v]}): evaluating from {r} differs from the function', observed=obs)
        else:
            text = B._to_dot([u, v], bdd).to_dot()
            nodes, edges = parse_dot(text)
            if {int(k) for k in nodes if k.isdigit()} != reach([u, v]):
                return dict(violates=True, key='views/dot-nodes', detail=text[:300], observed=obs)
            order_names = [bdd._level_to_var[i] for i in range(L)]
            for r in (u, v):
                try:
                    t = eval_dot(nodes, edges, order_names, f'@{r}')
                except ValueError as e:
                    return dict(violates=True, key='views/dot-malformed', detail=f'{e}', observed=obs)
                if t != tt(r):
                    return dict(violates=True, key='views/dot-evaluates-wrong',
                                detail=f'DOT export of roots {[u, v]}: evaluating from @{r} gives {t:#x}, function is {tt(r):#x}',
                                observed=obs)
    except Exception as e:
        return dict(violates=True, key=f'views/{kind}/raises', detail=repr(e), observed=obs)
    return dict(violates=False, detail='ok', observed=obs)
