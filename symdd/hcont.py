"""`HDict` / `HSet`: replacements for `dict` / `set` in the namespace of the
module under analysis.  With concrete keys they are the built-in containers.
Once a symbolic key is seen they become insertion-ordered association lists
whose key comparison is the symbolic `==` (a lookup forks over "equal to the
j-th stored key / to none", which is exactly dict semantics).

`Lift` rewrites dict/set displays and comprehensions of a module's *current*
source into calls of these classes (used where the keys of a display must stay
symbolic, DESIGN.md 3.2)."""
import ast
import sys
import types

from . import engine
from .engine import SymInt, SymBool


def is_sym(k):
    if isinstance(k, (SymInt, SymBool)):
        return True
    if isinstance(k, tuple):
        return any(is_sym(x) for x in k)
    return False


class _Tripwire:
    """Lives in the built-in storage while the container is in symbolic mode:
    a C fast path that copies the raw storage trips over it."""

    def __repr__(self):
        return '<symbolic-container-tripwire>'

    def __lt__(self, o):
        raise RuntimeError('raw storage of a symbolic container was used')

    __gt__ = __le__ = __ge__ = __lt__


_TRIP = _Tripwire()


def _eq(a, b):
    """python-level equality that forks when symbolic"""
    if isinstance(a, tuple) and isinstance(b, tuple):
        if len(a) != len(b):
            return False
        for x, y in zip(a, b):
            if not _eq(x, y):
                return False
        return True
    if isinstance(a, tuple) or isinstance(b, tuple):
        return False
    if a is None or b is None:
        return a is b
    r = (a == b)
    return bool(r)


class HDict(dict):
    def __init__(self, *a, **kw):
        super().__init__()
        self._ents = None      # None: concrete mode (built-in storage)
        if a or kw:
            src = a[0] if a else ()
            if isinstance(src, HDict):
                src = src.items()
            elif isinstance(src, dict):
                src = list(dict.items(src))
            elif hasattr(src, 'items'):
                src = src.items()
            for k, v in src:
                self[k] = v
            for k, v in kw.items():
                self[k] = v

    def _to_sym(self):
        if self._ents is None:
            self._ents = [[k, v] for k, v in dict.items(self)]
            dict.clear(self)
            dict.__setitem__(self, _TRIP, _TRIP)

    def _find(self, k):
        for e in self._ents:
            if _eq(k, e[0]):
                return e
        return None

    def _symmode(self, k):
        if self._ents is None and is_sym(k):
            self._to_sym()
        return self._ents is not None

    def __contains__(self, k):
        if self._symmode(k):
            return self._find(k) is not None
        return dict.__contains__(self, k)

    def __getitem__(self, k):
        if not self._symmode(k):
            return dict.__getitem__(self, k)
        e = self._find(k)
        if e is None:
            raise KeyError(k)
        return e[1]

    def get(self, k, d=None):
        if not self._symmode(k):
            return dict.get(self, k, d)
        e = self._find(k)
        return d if e is None else e[1]

    def __setitem__(self, k, v):
        if not self._symmode(k):
            return dict.__setitem__(self, k, v)
        e = self._find(k)
        if e is None:
            self._ents.append([k, v])
        else:
            e[1] = v

    def setdefault(self, k, d=None):
        if k in self:
            return self[k]
        self[k] = d
        return d

    def __delitem__(self, k):
        self.pop(k)

    def pop(self, k, *d):
        if not self._symmode(k):
            return dict.pop(self, k, *d)
        e = self._find(k)
        if e is None:
            if d:
                return d[0]
            raise KeyError(k)
        self._ents.remove(e)
        return e[1]

    def __len__(self):
        return dict.__len__(self) if self._ents is None else len(self._ents)

    def __iter__(self):
        if self._ents is None:
            # a snapshot: a lookup with a symbolic key during the iteration
            # moves the entries out of the built-in storage
            return iter(list(dict.__iter__(self)))
        return iter([e[0] for e in self._ents])

    def keys(self):
        return list(iter(self))

    def values(self):
        if self._ents is None:
            return list(dict.values(self))
        return [e[1] for e in self._ents]

    def items(self):
        if self._ents is None:
            return list(dict.items(self))
        return [(e[0], e[1]) for e in self._ents]

    def update(self, other=(), **kw):
        for k, v in (other.items() if hasattr(other, 'items') else other):
            self[k] = v
        for k, v in kw.items():
            self[k] = v

    def copy(self):
        return HDict(self)

    def clear(self):
        dict.clear(self)
        self._ents = None

    def __bool__(self):
        return len(self) > 0

    def __eq__(self, o):
        if self._ents is None and not (isinstance(o, HDict) and o._ents is not None):
            return dict.__eq__(self, o)
        if len(self) != len(o):
            return False
        for k, v in self.items():
            if k not in o or not _eq(o[k], v):
                return False
        return True

    __hash__ = None

    def __repr__(self):
        return 'HDict(%r)' % (self.items(),)


class HSet(set):
    """Set with symbolic-equality fallback.  `pop()` and (optionally)
    iteration order are nondeterministic choices explored by the engine, so
    CPython's hash order is not baked into the verdict."""

    NONDET_POP = True

    def __init__(self, it=()):
        super().__init__()
        self._ents = None
        for x in it:
            self.add(x)

    def _to_sym(self):
        if self._ents is None:
            self._ents = sorted(set.__iter__(self), key=repr)
            set.clear(self)
            set.add(self, _TRIP)

    def _symmode(self, k):
        if self._ents is None and is_sym(k):
            self._to_sym()
        return self._ents is not None

    def _has(self, k):
        for e in self._ents:
            if _eq(k, e):
                return True
        return False

    def add(self, k):
        if not self._symmode(k):
            return set.add(self, k)
        if not self._has(k):
            self._ents.append(k)

    def __contains__(self, k):
        return self._has(k) if self._symmode(k) else set.__contains__(self, k)

    def remove(self, k):
        if not self._symmode(k):
            return set.remove(self, k)
        for e in self._ents:
            if _eq(k, e):
                self._ents.remove(e)
                return
        raise KeyError(k)

    def discard(self, k):
        try:
            self.remove(k)
        except KeyError:
            pass

    def pop(self):
        if self._ents is None:
            items = sorted(set.__iter__(self), key=repr)
            if not items:
                raise KeyError('pop from an empty set')
            j = engine.CTX.choose(len(items), 'set.pop') if self.NONDET_POP else 0
            x = items[j]
            set.remove(self, x)
            return x
        if not self._ents:
            raise KeyError('pop from an empty set')
        j = engine.CTX.choose(len(self._ents), 'set.pop') if self.NONDET_POP else 0
        return self._ents.pop(j)

    def update(self, *others):
        for o in others:
            for x in o:
                self.add(x)

    def __ior__(self, o):
        self.update(o)
        return self

    def __or__(self, o):
        r = HSet(self)
        r.update(o)
        return r

    def union(self, *others):
        r = HSet(self)
        r.update(*others)
        return r

    def difference(self, *others):
        r = HSet()
        for x in self:
            if not any(x in o for o in others):
                r.add(x)
        return r

    def __sub__(self, o):
        return self.difference(o)

    def difference_update(self, *others):
        for o in others:
            for x in list(o):
                self.discard(x)

    def intersection_update(self, *others):
        for x in list(self):
            if not all(x in o for o in others):
                self.discard(x)

    def intersection(self, *others):
        r = HSet(self)
        r.intersection_update(*others)
        return r

    def __and__(self, o):
        return self.intersection(o)

    def isdisjoint(self, o):
        return not any(x in self for x in o)

    def issubset(self, o):
        return all(x in o for x in self)

    def issuperset(self, o):
        return all(x in self for x in o)

    def __le__(self, o):
        return self.issubset(o)

    def __eq__(self, o):
        if self._ents is None and not (isinstance(o, HSet) and o._ents is not None):
            return set.__eq__(self, o)
        return len(self) == len(o) and self.issubset(o)

    def __ne__(self, o):
        return not self.__eq__(o)

    __hash__ = None

    def copy(self):
        return HSet(self)

    def clear(self):
        set.clear(self)
        self._ents = None

    def __iter__(self):
        if self._ents is None:
            return iter(sorted(set.__iter__(self), key=repr))
        return iter(list(self._ents))

    def __len__(self):
        return set.__len__(self) if self._ents is None else len(self._ents)

    def __bool__(self):
        return len(self) > 0

    def __repr__(self):
        return 'HSet(%r)' % (list(self),)


class HSetDet(HSet):
    NONDET_POP = False


class Lift(ast.NodeTransformer):
    """{k: v, ...} -> __HDict__([...]); {x for ...} -> __HSet__(...)."""

    def visit_Dict(self, node):
        self.generic_visit(node)
        if any(k is None for k in node.keys):
            return node
        pairs = ast.List(
            elts=[ast.Tuple(elts=[k, v], ctx=ast.Load())
                  for k, v in zip(node.keys, node.values)], ctx=ast.Load())
        return ast.copy_location(ast.Call(
            func=ast.Name(id='__HDict__', ctx=ast.Load()),
            args=[pairs], keywords=[]), node)

    def visit_DictComp(self, node):
        self.generic_visit(node)
        gen = ast.GeneratorExp(
            elt=ast.Tuple(elts=[node.key, node.value], ctx=ast.Load()),
            generators=node.generators)
        return ast.copy_location(ast.Call(
            func=ast.Name(id='__HDict__', ctx=ast.Load()),
            args=[gen], keywords=[]), node)

    def visit_Set(self, node):
        self.generic_visit(node)
        return ast.copy_location(ast.Call(
            func=ast.Name(id='__HSet__', ctx=ast.Load()),
            args=[ast.List(elts=node.elts, ctx=ast.Load())], keywords=[]), node)

    def visit_SetComp(self, node):
        self.generic_visit(node)
        gen = ast.GeneratorExp(elt=node.elt, generators=node.generators)
        return ast.copy_location(ast.Call(
            func=ast.Name(id='__HSet__', ctx=ast.Load()),
            args=[gen], keywords=[]), node)


def load_lifted(modname, path, register=True, extra=None):
    """Execute the current source of `path` with displays lifted."""
    src = open(path).read()
    tree = Lift().visit(ast.parse(src, path))
    ast.fix_missing_locations(tree)
    mod = types.ModuleType(modname)
    mod.__file__ = path
    if register:
        sys.modules[modname] = mod
    mod.__dict__.update(__HDict__=HDict, __HSet__=HSet, dict=HDict, set=HSet)
    if extra:
        mod.__dict__.update(extra)
    exec(compile(tree, path, 'exec'), mod.__dict__)
    return mod
