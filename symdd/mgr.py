"""A symbolic manager: an arbitrary valid state (INV assumed) installed on a
real `dd.bdd.BDD` instance; post-state reading; goal builders; model ->
concrete case extraction."""
import z3

from . import engine
from .engine import SymInt, SymBool, _z
from .state import (
    State, Den, I, zabs, inv_struct, pred_axiom_at, ite_axiom_at, inv_refs,
    ext_axioms, inv_minfree, absent_above, same_nodes, present, indeg,
    SuccTab, Tab3, RefTab, node_ok)


def default_names(L):
    return [chr(97 + i) for i in range(L)]


_NODEL = {}


def nodel_class(B):
    """Subclass of the real `dd.bdd.BDD` whose `__del__` is a no-op (the real
    one would run the collector on proxies at an arbitrary moment)."""
    c = _NODEL.get(B)
    if c is None:
        class _NoDel(B.BDD):
            def __del__(self):
                pass
        c = _NODEL[B] = _NoDel
    return c


class SymMgr:
    def __init__(self, N, K, L, names=None, with_cache=True, with_refs=True,
                 tag='0', cache_model='array', cache_entries=2):
        self.N, self.K, self.L = N, K, L
        self.N0 = N               # pre-state bound (N may grow when a contract extends the state)
        self.maxid = N + K
        self.ids = list(range(1, N + 1))
        self.ids2 = list(range(1, N + K + 1))
        self.names = names or default_names(L)
        self.with_cache = with_cache
        self.with_refs = with_refs
        self.st0 = State(tag)
        self.st = self.st0.copy()
        self.den = Den(L, tag)
        self.ext = z3.Array(f'EXT{tag}', I, I)
        self.bdd = None
        self.tag = tag
        self.axst = self.st0      # state the lookup axioms (I3/I6 second halves) speak about
        # 'array': the computed table is an arbitrary valid array (unbounded
        # number of entries, cannot be iterated); 'assoc': at most
        # `cache_entries` arbitrary valid entries in an association list
        # (can be iterated / filtered by the code under analysis)
        self.cache_model = cache_model
        self.cache_entries = cache_entries
        self.decl = 'identity'
        self.assoc = []

    # ---- pre-state
    def pre_axioms(self, room=True):
        st0, N, K, L = self.st0, self.N, self.K, self.L
        cs = inv_struct(st0, self.ids, L)
        cs += absent_above(st0, N + 1, N + K)
        cs += inv_minfree(st0, N)
        cs += self.den.axioms(st0, self.ids)
        if self.with_refs:
            cs += ext_axioms(st0, self.ids, self.ext)
            cs += inv_refs(st0, self.ids, self.ext)
        return cs

    def assume_pre(self):
        c = engine.CTX
        for a in self.pre_axioms():
            c.assume(a)

    def pred_axiom(self, a, b, c):
        return pred_axiom_at(self.axst, self.N, a, b, c)

    def ite_axiom(self, g, u, v):
        return ite_axiom_at(self.axst, self.den, self.N, g, u, v)

    def install(self, B, reordering=False, decl=None):
        """Create a real BDD and replace its tables by proxies.

        decl: the *declaration* (dict insertion) order of the variables, which
        after swaps differs from the level order in real histories:
        'identity', 'reversed', or 'choose' (both explored)."""
        cls = nodel_class(B)
        decl = decl or self.decl
        items = [(nm, i) for i, nm in enumerate(self.names)]
        if decl == 'choose':
            decl = ['identity', 'reversed'][engine.CTX.choose(2, 'declaration-order')]
        if decl == 'reversed':
            items.reverse()
        self.decl_used = decl
        bdd = cls(dict(items))
        if decl == 'reversed':
            # keep `_level_to_var` in the same (reversed) insertion order
            bdd._level_to_var = {i: nm for nm, i in items}
        st = self.st
        bdd._succ = self.succ = SuccTab(st, self.maxid)
        bdd._pred = self.pred = Tab3(st, 'PR', self.pred_axiom)
        bdd._ref = self.ref = RefTab(st, self.maxid)
        if self.with_cache and self.cache_model == 'assoc':
            from . import hcont
            c = engine.CTX
            tab = hcont.HDict()
            den = self.den
            for j in range(self.cache_entries):
                # (an entry on terminal operands is always possible and is
                # irrelevant, so "fewer entries" needs no separate case)
                g, u, v, r = (z3.Int(f'ce{j}{x}{self.tag}') for x in 'guvr')
                c.assume(z3.And(self.present0(g), self.present0(u), self.present0(v),
                                self.present0(r),
                                den.s(r) == den.ite(den.s(g), den.s(u), den.s(v))))
                self.assoc.append((g, u, v, r))
                tab[(SymInt(g), SymInt(u), SymInt(v))] = SymInt(r)
            bdd._ite_table = tab
            self.itab = None
            self.assoc_tab = tab
        elif self.with_cache:
            bdd._ite_table = self.itab = Tab3(st, 'IT', self.ite_axiom)
        else:
            self.itab = None
        bdd._min_free = SymInt(self.st0.MF)
        bdd.max_nodes = self.maxid + 2
        self.bdd = bdd
        return bdd

    def present0(self, e):
        return present(self.st0, e, self.N)

    def present1(self, e):
        return present(self.st, e, self.maxid)

    def lvl0(self, e):
        return z3.Select(self.st0.LV, zabs(e))

    # ---- post-state
    def read_post(self):
        """Bring self.st up to date with attributes the real code re-bound."""
        bdd, st = self.bdd, self.st
        st.MF = _z(bdd._min_free)
        if bdd._succ is not self.succ:
            P = z3.K(I, False)
            LV, LO, HI = (z3.K(I, z3.IntVal(0)),) * 3
            for k, (i, v, w) in bdd._succ.items():
                kz = _z(k)
                P = z3.Store(P, kz, True)
                LV = z3.Store(LV, kz, _z(i))
                if v is not None:
                    LO = z3.Store(LO, kz, _z(v))
                    HI = z3.Store(HI, kz, _z(w))
            st.P, st.LV, st.LO, st.HI = P, LV, LO, HI
        if bdd._ref is not self.ref:
            RP = z3.K(I, False)
            RF = z3.K(I, z3.IntVal(0))
            for k, v in bdd._ref.items():
                RP = z3.Store(RP, _z(k), True)
                RF = z3.Store(RF, _z(k), _z(v))
            st.RP, st.RF = RP, RF
        self.pred_rebuilt = None
        if bdd._pred is not self.pred:
            # a rebuilt dict: its entries are listed explicitly
            self.pred_rebuilt = [
                (k, v) for k, v in bdd._pred.items() if k[1] is not None]
        self.cache_rebuilt = None
        if self.with_cache and (bdd._ite_table is not self.itab or self.cache_model == 'assoc'):
            self.cache_rebuilt = list(bdd._ite_table.items())

    def define_new_nodes(self):
        """Definitional extension of DEN to nodes created by the call (sound
        for calls that never delete or rewrite a node; the frame goal proves
        that)."""
        c = engine.CTX
        st0, st = self.st0, self.st
        for k in self.ids2:
            if k == 1:
                continue
            old = z3.Select(st0.P, k) if k <= self.N else z3.BoolVal(False)
            c.assume(z3.Implies(z3.And(z3.Select(st.P, k), z3.Not(old)),
                                self.den.node_eq(st, k)))

    # ---- goals (each returns a z3 Bool to be proved)
    def g_frame(self):
        """Old nodes unchanged; nothing else appears except in free slots."""
        return z3.And(same_nodes(self.st0, self.st, self.ids))

    def g_inv_struct(self):
        return z3.And(inv_struct(self.st, self.ids2, self.L))

    def g_minfree(self):
        return z3.And(inv_minfree(self.st, self.maxid))

    def g_refs(self, ext=None, ext_ids=None):
        ext = self.ext if ext is None else ext
        ids = self.ids if ext_ids is None else ext_ids
        return z3.And(inv_refs(self.st, self.ids2, ext, ids))

    def g_pred_sound(self):
        """Second half of I3 in the post-state, at a skolem key."""
        c = engine.CTX
        a, b, cc = z3.Ints(f'ska{self.tag} skb{self.tag} skc{self.tag}')
        if self.pred_rebuilt is not None:
            gs = []
            for (i, v, w), k in self.pred_rebuilt:
                kz = _z(k)
                gs.append(z3.And(
                    present(self.st, kz, self.maxid),
                    z3.Select(self.st.LV, kz) == _z(i),
                    z3.Select(self.st.LO, kz) == _z(v),
                    z3.Select(self.st.HI, kz) == _z(w)))
            return z3.And(gs) if gs else z3.BoolVal(True)
        c.assume(self.pred_axiom(a, b, cc))
        r = z3.Select(self.st.PR, a, b, cc)
        return z3.Implies(r != 0, z3.And(
            r >= 2, r <= self.maxid, z3.Select(self.st.P, r),
            z3.Select(self.st.LV, r) == a, z3.Select(self.st.LO, r) == b,
            z3.Select(self.st.HI, r) == cc))

    def g_pred_complete(self):
        """First half of I3 when `_pred` was rebuilt as a dict."""
        if self.pred_rebuilt is None:
            return z3.BoolVal(True)
        gs = []
        for k in self.ids2:
            if k == 1:
                continue
            hit = z3.Or([z3.And(_z(i) == z3.Select(self.st.LV, k),
                                _z(v) == z3.Select(self.st.LO, k),
                                _z(w) == z3.Select(self.st.HI, k),
                                _z(u) == k)
                         for (i, v, w), u in self.pred_rebuilt] or [z3.BoolVal(False)])
            gs.append(z3.Implies(z3.Select(self.st.P, k), hit))
        return z3.And(gs)

    def g_cache_sound(self):
        """I6 in the post-state at a skolem key (den extended to new nodes)."""
        if not self.with_cache:
            return z3.BoolVal(True)
        den = self.den
        if self.cache_rebuilt is not None:
            gs = []
            for (g, u, v), r in self.cache_rebuilt:
                g, u, v, r = _z(g), _z(u), _z(v), _z(r)
                gs.append(z3.And(
                    self.present1(g), self.present1(u), self.present1(v),
                    self.present1(r),
                    den.s(r) == den.ite(den.s(g), den.s(u), den.s(v))))
            return z3.And(gs) if gs else z3.BoolVal(True)
        c = engine.CTX
        g, u, v = z3.Ints(f'skg{self.tag} sku{self.tag} skv{self.tag}')
        c.assume(self.ite_axiom(g, u, v))
        if self.itab is not None:
            self.itab.lookups.append((g, u, v))     # so that models show the entry
        r = z3.Select(self.st.IT, g, u, v)
        return z3.Implies(r != 0, z3.And(
            self.present1(g), self.present1(u), self.present1(v),
            self.present1(r),
            den.s(r) == den.ite(den.s(g), den.s(u), den.s(v))))

    def g_cache_empty(self):
        if self.cache_rebuilt is not None:
            return z3.BoolVal(len(self.cache_rebuilt) == 0)
        g, u, v = z3.Ints(f'ske{self.tag} skf{self.tag} skh{self.tag}')
        engine.CTX.assume(self.ite_axiom(g, u, v))
        if self.itab is not None:
            self.itab.lookups.append((g, u, v))
        return z3.Select(self.st.IT, g, u, v) == 0

    def g_den_frame(self, den2):
        return z3.And([
            z3.Implies(z3.Select(self.st0.P, k),
                       z3.Select(den2.D, k) == z3.Select(self.den.D, k))
            for k in self.ids])

    # ---- model -> concrete case
    def extract(self, model, which='pre', extra_ids=0):
        st = self.st0 if which == 'pre' else self.st
        maxid = self.N0 if which == 'pre' else self.maxid

        def ev(t):
            return model.eval(t, model_completion=True)

        def evi(t):
            return ev(t).as_long()

        succ, ref, ext = {}, {}, {}
        for k in range(1, maxid + 1):
            if not z3.is_true(ev(z3.Select(st.P, k))):
                continue
            if k == 1:
                if self.with_refs:
                    ref['1'] = evi(z3.Select(st.RF, 1))
                    ext['1'] = evi(z3.Select(self.ext, 1))
                continue
            succ[str(k)] = [evi(z3.Select(st.LV, k)), evi(z3.Select(st.LO, k)),
                            evi(z3.Select(st.HI, k))]
            if self.with_refs:
                ref[str(k)] = evi(z3.Select(st.RF, k))
                ext[str(k)] = evi(z3.Select(self.ext, k))
        cache = []
        if self.with_cache and self.cache_model == 'assoc' and which == 'pre':
            for ent in self.assoc:
                cache.append([evi(t) for t in ent])
        if self.with_cache and self.itab is not None and which == 'pre':
            seen = set()
            for key in self.itab.lookups:
                kv = tuple(evi(t) for t in key)
                if kv in seen:
                    continue
                seen.add(kv)
                r = evi(z3.Select(self.st0.IT, *key))
                if r != 0:
                    cache.append(list(kv) + [r])
        case = dict(L=self.L, names=list(self.names), maxid=maxid, succ=succ,
                    min_free=evi(st.MF), cache=cache)
        if getattr(self, 'decl_used', 'identity') != 'identity':
            case['decl'] = self.decl_used
        if self.with_refs:
            case['ref'] = ref
            case['ext'] = ext
        return case
