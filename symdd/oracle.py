"""Oracles on truth tables as z3 bit-vectors of width 2^L (DESIGN.md 6),
written independently of dd."""
import z3


def bv_cof(den, f, i, val):
    """cofactor of f at the (concrete) level i to the constant val"""
    x = den.varbv[i]
    sh = 1 << i
    if val:
        hi = f & x
        return hi | z3.LShR(hi, sh)
    lo = f & ~x
    return lo | (lo << sh)


def bv_quant(den, f, levels, forall):
    for i in sorted(levels):
        a, b = bv_cof(den, f, i, 1), bv_cof(den, f, i, 0)
        f = (a & b) if forall else (a | b)
    return f


def bv_depends(den, f, i):
    return bv_cof(den, f, i, 1) != bv_cof(den, f, i, 0)


def bv_subst(den, f, i, g):
    """f[x_i := g]"""
    return (g & bv_cof(den, f, i, 1)) | (~g & bv_cof(den, f, i, 0))


def bv_subst_many(den, f, sub):
    """simultaneous substitution: sub maps concrete level -> truth table.
    Shannon expansion over the substituted levels."""
    levels = sorted(sub)
    if not levels:
        return f
    out = None
    n = len(levels)
    for bits in range(2 ** n):
        cof = f
        guard = den.ones
        for j, i in enumerate(levels):
            val = (bits >> j) & 1
            cof = bv_cof(den, cof, i, val)
            guard = guard & (sub[i] if val else ~sub[i])
        term = guard & cof
        out = term if out is None else (out | term)
    return out


def bv_swap_adjacent(den, f, x):
    """exchange the variables at levels x and x+1 in the truth table f"""
    a, b = den.varbv[x], den.varbv[x + 1]
    sx, sy = 1 << x, 1 << (x + 1)
    keep = f & ((a & b) | (~a & ~b))
    m10 = f & (a & ~b)
    m01 = f & (~a & b)
    d = sy - sx
    return keep | (m10 << d) | z3.LShR(m01, d)


def bv_popcount(den, f):
    return z3.Sum([z3.If(z3.Extract(k, k, f) == 1, 1, 0) for k in range(den.W)])


def bv_permute(den, f, perm):
    """Truth table g with g(a) = f(b) where bit perm[i] of b = bit i of a
    (perm: concrete list, old level i -> new level perm[i]); i.e. the same
    function of the same variables after the variable at level i moved to
    level perm[i]."""
    W = den.W
    L = den.L
    bits = []
    for a in range(W):
        # a is an assignment in the NEW order; find the old-order index
        b = 0
        for i in range(L):
            if (a >> perm[i]) & 1:
                b |= 1 << i
        bits.append(z3.Extract(b, b, f))
    # Concat takes most significant first
    return z3.Concat(*reversed(bits)) if len(bits) > 1 else bits[0]


def bv_embed(f, Ls, Lt, perm):
    """Truth table over Lt target levels of the function whose table over Ls
    source levels is f, where the variable at source level i sits at target
    level perm[i] (target levels not in perm are don't-care)."""
    bits = []
    for a in range(2 ** Lt):
        b = 0
        for i in range(Ls):
            if (a >> perm[i]) & 1:
                b |= 1 << i
        bits.append(z3.Extract(b, b, f))
    return z3.Concat(*reversed(bits)) if len(bits) > 1 else bits[0]
