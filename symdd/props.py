"""Per-property job lists (quick / thorough bounds)."""
from .runner import Job


def jobs(pid, tier):
    q = tier == 'quick'
    J = []
    FOA = ['created', 'found_or_eliminated', 'raised']
    if pid == 'C01':
        J.append(Job('k1_foa', dict(N=4 if q else 6, L=3, K=1), need_outcomes=FOA))
        J.append(Job('k2_topcof', dict(N=4 if q else 6, L=3), need_outcomes=['returned', 'raised']))
        J.append(Job('k3_ite', dict(N=3, L=2, K=2) if q else dict(N=4, L=2, K=3),
                     need_outcomes=['created', 'no_new_node']))
        J.append(Job('k4_ite_ind', dict(NT=4, L=2) if q else dict(NT=5, L=3),
                     need_outcomes=['recursed', 'terminal_or_cached']))
        J.append(Job('k5_apply', dict(N=5, L=3) if q else dict(N=6, L=3),
                     need_outcomes=['returned:' + f for f in
                                    ('not', 'and', 'or', 'xor', 'implies', 'equiv', 'diff',
                                     'forall', 'exists', 'ite')] + ['arity_refused']))
        J.append(Job('k8_gc', dict(N=4, L=2, roots=0, nondet=False, ce=1), need_outcomes=['collected']))
        J.append(Job('k6_autoref_ops', dict(N=5, L=3) if q else dict(N=6, L=2),
                     need_outcomes=['returned:' + o for o in
                                    ('~', '&', '|', 'implies', 'equiv', '<=', '<', '==', '!=', 'ite')]))
    if pid == 'C02':
        J.append(Job('lemma_canon', dict(N=5, L=3), need_outcomes=['lemma']))
        if not q:
            J.append(Job('lemma_canon', dict(N=6, L=2), need_outcomes=['lemma']))
        J.append(Job('k1_foa', dict(N=5 if q else 6, L=3, K=1), need_outcomes=FOA))
        J.append(Job('k7_swap', dict(N=4, L=2, x=0, K=2), need_outcomes=['swapped']))
        J.append(Job('k8_gc', dict(N=4, L=2, roots=0, nondet=True), need_outcomes=['collected']))
        J.append(Job('k9_undeclare', dict(N=4, L=3), need_outcomes=['removed', 'refused']))
        J.append(Job('k10_addvar', dict(N=4, L=2, via=['bdd', 'autoref']), need_outcomes=['added', 'idempotent', 'refused']))
        # other construction routes (every route gives the canonical reference)
        J.append(Job('let', dict(N=3, L=3, kinds=['rename']), need_outcomes=['returned:rename']))
        J.append(Job('let', dict(N=3, L=3, kinds=['compose2']), need_outcomes=['returned:compose2']))
        J.append(Job('copy', dict(N=4, L=3, NT=2, extra=0, variants=['copy_bdd']), need_outcomes=['returned:copy_bdd']))
        if not q:
            J.append(Job('k7_swap', dict(N=4, L=3, x=1, K=2), need_outcomes=['swapped']))
            J.append(Job('k8_gc', dict(N=5, L=3, roots=0, nondet=False), need_outcomes=['collected']))
        # ite from an arbitrary state with an arbitrary sound result cache: the canonical reference
        J.append(Job('k3_ite', dict(N=3, L=2, K=2) if q else dict(N=4, L=2, K=2), need_outcomes=['created']))
    if pid == 'C03':
        J.append(Job('quant', dict(N=4, L=2, entries=['quantify_names', 'quantify_levels', 'exist_forall', 'apply',
                                                      'autoref_quantify', 'autoref_exist_forall']),
                     need_outcomes=['returned:' + e for e in
                     ('quantify_names', 'quantify_levels', 'exist_forall', 'apply', 'autoref_quantify')]))
        J.append(Job('quant', dict(N=3, L=3, entries=['quantify_names', 'apply']),
                     need_outcomes=['returned:quantify_names']))
        if q:
            J.append(Job('quant', dict(N=5, L=3, maxq=1, entries=['quantify_names']),
                         need_outcomes=['returned:quantify_names']))
        else:
            J.append(Job('quant', dict(N=5, L=3, maxq=1, entries=['quantify_names']), need_outcomes=['returned:quantify_names']))
            J.append(Job('quant', dict(N=4, L=3, entries=['quantify_names', 'apply']), need_outcomes=['returned:quantify_names']))
    if pid == 'C04':
        J.append(Job('let', dict(N=4, L=2, via=['bdd', 'autoref']), need_outcomes=['returned:' + e for e in
                     ('cofactor', 'compose1', 'compose2', 'rename', 'empty')]))
        J.append(Job('let', dict(N=4 if q else 5, L=3, kinds=['cofactor', 'compose1', 'rename']),
                     need_outcomes=['returned:cofactor', 'returned:compose1', 'returned:rename']))
        J.append(Job('let', dict(N=3 if q else 5, L=3, kinds=['compose2']), need_outcomes=['returned:compose2']))
    if pid == 'C05':
        J.append(Job('lexer_table', {}, need_outcomes=['table'], procs=1))
        J.append(Job('roundtrip', dict(N=4 if q else 5, L=3, flavour='bdd'), need_outcomes=['round_trip']))
        J.append(Job('roundtrip', dict(N=3 if q else 4, L=2, flavour='autoref'), need_outcomes=['round_trip']))
        J.append(Job('parse', dict(alphabet='prop', maxlen=8 if q else 9, nv=5), need_outcomes=['accepted', 'rejected']))
        J.append(Job('parse', dict(alphabet='binders', maxlen=6 if q else 7, nv=3), need_outcomes=['accepted', 'rejected']))
        J.append(Job('parse', dict(alphabet='ite', maxlen=9 if q else 11, nv=5), need_outcomes=['accepted', 'rejected']))
        if q:
            J.append(Job('parse', dict(alphabet='subst2', maxlen=10, nv=2), need_outcomes=['accepted', 'rejected']))
        else:
            J.append(Job('parse', dict(alphabet='subst', maxlen=11, nv=3), need_outcomes=['accepted', 'rejected']))
        # the contracts the translator's BDD context stands for, discharged on the real manager
        J.append(Job('k5_apply', dict(N=5, L=3) if q else dict(N=6, L=3),
                     need_outcomes=['returned:' + f for f in
                                    ('not', 'and', 'or', 'xor', 'implies', 'equiv', 'diff',
                                     'forall', 'exists', 'ite')] + ['arity_refused']))
        J.append(Job('quant', dict(N=3, L=3, entries=['quantify_names']), need_outcomes=['returned:quantify_names']))
        J.append(Job('let', dict(N=3 if q else 4, L=3, kinds=['rename']), need_outcomes=['returned:rename']))
    if pid == 'C06':
        J.append(Job('k8_gc', dict(N=4, L=2, roots=0, nondet=True), need_outcomes=['collected', 'nothing_to_collect']))
        J.append(Job('k8_gc', dict(N=5, L=3, roots=0, nondet=not q), need_outcomes=['collected', 'nothing_to_collect']))
        J.append(Job('k8_gc', dict(N=4, L=3, roots=2, nondet=True), need_outcomes=['collected', 'nothing_to_collect']))
        J.append(Job('k8_gc', dict(N=4, L=2, roots=-1, nondet=False), need_outcomes=['nothing_to_collect']))
        J.append(Job('refs', dict(N=4, L=2), need_outcomes=['incref', 'decref', 'decref_warned']))
        J.append(Job('k1_foa', dict(N=4, L=3, K=1), need_outcomes=FOA))
        J.append(Job('k7_swap', dict(N=4, L=2, x=0, K=2), need_outcomes=['swapped']))
        J.append(Job('k3_ite', dict(N=3, L=2, K=2), need_outcomes=['created', 'no_new_node']))
    if pid == 'C07':
        J.append(Job('k7_swap', dict(N=4, L=2, x=0, K=2), need_outcomes=['swapped']))
        J.append(Job('k7_swap', dict(N=4, L=3, x=0, K=2), need_outcomes=['swapped']))
        J.append(Job('k7_swap', dict(N=4, L=3, x=1, K=2, by='name'), need_outcomes=['swapped']))
        J.append(Job('reorder_e2e', dict(N=3, L=3, K=2, kinds=['to_order', 'to_pairs'] if q else ['to_order', 'to_pairs', 'sift']),
                     need_outcomes=['reordered:to_order', 'reordered:to_pairs']))
        J.append(Job('sched', dict(L=3), need_outcomes=['done:' + k for k in
                     ('sift', 'to_order', 'to_pairs', 'autoref_sift', 'autoref_order', 'shift')]))
        J.append(Job('sched', dict(L=4, kinds=['to_pairs', 'to_order']), need_outcomes=['done:to_pairs']))
        if not q:
            J.append(Job('k7_swap', dict(N=4, L=3, x=1, K=2, by='reversed'), need_outcomes=['swapped']))
            J.append(Job('sched', dict(L=4, kinds=['sift', 'to_order', 'to_pairs']), need_outcomes=['done:sift']))
    if pid == 'C08':
        J.append(Job('autoref_life', dict(N=4, L=2), need_outcomes=['done:' + o for o in
                     ('var', 'ite', 'apply', 'let_fn', 'quantify', 'succ', 'low_high', 'operators',
                      'comparisons', 'del_twice', 'image', 'copy_other')]))
        # live handles through collections and reorderings: the K8 / K7 steps with the
        # ledger read as "number of live Functions", plus a live handle's views across a swap
        J.append(Job('k7_swap', dict(N=4, L=2, x=0, K=2, handle=True), need_outcomes=['swapped']))
        J.append(Job('k8_gc', dict(N=4, L=2, roots=0, nondet=True), need_outcomes=['collected']))
        J.append(Job('k8_gc', dict(N=4, L=3, roots=0, nondet=False, shutdown=True), need_outcomes=['shutdown']))
        if not q:
            J.append(Job('autoref_life', dict(N=5, L=3), need_outcomes=['done:var', 'done:ite']))
            J.append(Job('k7_swap', dict(N=4, L=3, x=1, K=2, handle=True), need_outcomes=['swapped']))
            J.append(Job('k8_gc', dict(N=5, L=3, roots=0, nondet=True), need_outcomes=['collected']))
    # the same query twice with a collection and a node creation (number re-use) in between
    SEQ = {'C01': ['apply_and', 'apply_implies_neg'], 'C06': ['var', 'apply_and', 'let_const', 'exist', 'add_expr'],
           'C10': ['count', 'support'], 'C05': ['to_expr', 'add_expr'], 'C03': ['exist'], 'C04': ['let_const'],
           'C02': ['var', 'apply_implies_neg']}
    if pid in ('C18', 'C08'):
        J.append(Job('memo_seq', dict(N=2, L=2, K=3, ops=['autoref_len', 'autoref_support', 'autoref_var_level'],
                                      middle='swap'), need_outcomes=['done:autoref_len']))
        J.append(Job('memo_seq', dict(N=2, L=2, K=3, ops=['autoref_len', 'autoref_var_level'], middle='gc'),
                     need_outcomes=['done:autoref_len']))
    if pid in ('C07', 'C02', 'C10'):
        # ... and with the two levels exchanged in between (answers are by variable name)
        sw = {'C07': ['var', 'let_const', 'exist', 'support'], 'C02': ['var'],
              'C10': ['count', 'support']}[pid]
        J.append(Job('memo_seq', dict(N=2, L=2, K=3, ops=sw, middle='swap'), need_outcomes=['done:' + sw[0]]))
    if pid == 'C01':
        # ... and across `copy.copy(manager)`: the duplicate answers first, the original afterwards
        J.append(Job('memo_seq', dict(N=3, L=2, K=3, ops=['apply_and'], middle='copy'),
                     need_outcomes=['done:apply_and']))
    if pid in SEQ:
        J.append(Job('memo_seq', dict(N=2, L=2, K=3, ops=SEQ[pid]), need_outcomes=['done:' + SEQ[pid][0]]))
        # results that are *new* nodes (freed by the collection in between) need a second operand node
        big = {'C03': ['exist'], 'C04': ['let_const'], 'C06': ['exist', 'let_const']}.get(pid)
        if big and q:
            J.append(Job('memo_seq', dict(N=3, L=2, K=3, ops=big), need_outcomes=['done:' + big[0]]))
        if not q:
            J.append(Job('memo_seq', dict(N=3, L=2, K=3, ops=SEQ[pid][:2]), need_outcomes=['done:' + SEQ[pid][0]]))
    # every harness starts from "an arbitrary state satisfying INV" (tables, counts, sound result
    # cache): the two operations that rewrite the tables wholesale must give such a state back
    if pid in ('C03', 'C04', 'C05', 'C07', 'C10', 'C11', 'C12', 'C13', 'C17', 'C18'):
        have = {(j.mod.split('.')[-1], j.params.get('N'), j.params.get('L')) for j in J}
        if ('k8_gc', 4, 2) not in have:
            J.append(Job('k8_gc', dict(N=4, L=2, roots=0, nondet=True), need_outcomes=['collected', 'nothing_to_collect']))
        if ('k7_swap', 4, 2) not in have:
            J.append(Job('k7_swap', dict(N=4, L=2, x=0, K=2), need_outcomes=['swapped']))
    # the property's own decorated operations under dynamic reordering (the reorder contract with
    # a real change of order, firing at every node creation): the C09 harness restricted to them
    DYN = {'C01': ['ite', 'apply_and'], 'C02': ['var', 'cube', 'apply_and'],
           'C03': ['quantify', 'forall_method', 'apply_forall', 'quantify_kw'],
           'C04': ['cofactor', 'cofactor_low', 'compose', 'rename'], 'C05': ['add_expr'],
           'C06': ['cube', 'var', 'ite']}
    if pid in DYN:
        J.append(Job('dynreorder', dict(N=3, L=2, fires=1, permute=True, ops=DYN[pid]),
                     need_outcomes=['fired:' + dict(C04='cofactor_low').get(pid, DYN[pid][0])]))
    if pid == 'C09':
        J.append(Job('dynreorder', dict(N=3, L=2, fires=1 if q else 2), need_outcomes=['fired:ite', 'quiet:ite', 'fired:quantify']))
        # the reorder contract with a real change of order (every permutation), decorated operations
        deco = ['ite', 'apply_and', 'quantify', 'forall_method', 'apply_forall', 'quantify_kw', 'cofactor', 'cofactor_low',
                'compose', 'rename', 'cube', 'var', 'add_expr']
        J.append(Job('dynreorder', dict(N=3, L=2, fires=1, permute=True, ops=deco if q else None),
                     need_outcomes=['fired:ite', 'fired:apply_forall', 'fired:rename']))
        # the reorder contract's clauses (collection and swaps leave held nodes, counts and a sound
        # result cache) discharged on the real collect_garbage / swap
        J.append(Job('k8_gc', dict(N=4, L=2, roots=0, nondet=True), need_outcomes=['collected', 'nothing_to_collect']))
        J.append(Job('k7_swap', dict(N=4, L=2, x=0, K=2), need_outcomes=['swapped']))
        # "reordering is still enabled afterwards", also when the retried call fails
        J.append(Job('reject', dict(N=3, L=2, fires=1), need_outcomes=['rejected:expr_undeclared', 'rejected:cube_undeclared']))
    if pid == 'C10':
        J.append(Job('sat', dict(N=4, L=2, via=['bdd', 'autoref']), need_outcomes=['returned:' + e for e in
                     ('support', 'essential', 'count', 'pick_iter', 'pick')]))
        J.append(Job('sat', dict(N=4 if q else 5, L=3), need_outcomes=['returned:' + e for e in
                     ('support', 'essential', 'count', 'pick_iter', 'pick')]))
        J.append(Job('sat', dict(N=4, L=3, kinds=['count_after_count'], decl='identity' if q else 'choose'),
                     need_outcomes=['returned:count_after_count']))
        J.append(Job('sat', dict(N=5, L=4, kinds=['support', 'essential']),
                     need_outcomes=['returned:support', 'returned:essential']))
        if not q:
            J.append(Job('sat', dict(N=4, L=4, kinds=['count', 'pick']),
                         need_outcomes=['returned:count', 'returned:pick']))
    if pid == 'C11':
        J.append(Job('copy', dict(N=4, L=2, NT=3, extra=0), need_outcomes=['returned:' + v for v in
                     ('copy_bdd', 'BDD.copy', '_copy.copy_bdd', '_copy.copy_bdds_from', 'autoref.copy')]))
        J.append(Job('copy', dict(N=2, L=3, NT=2, extra=0, variants=['_copy.copy_vars', 'autoref.copy_vars']),
                     need_outcomes=['returned:_copy.copy_vars', 'returned:autoref.copy_vars']))
        J.append(Job('copy', dict(N=3, L=2, NT=3, extra=1, variants=['copy_bdd', '_copy.copy_bdd']),
                     need_outcomes=['returned:copy_bdd']))
        J.append(Job('copy', dict(N=4, L=3, NT=2 if q else 3, extra=0, variants=['copy_bdd'] if q else ['copy_bdd', '_copy.copy_bdd']),
                     need_outcomes=['returned:copy_bdd']))
    if pid == 'C12':
        allv = ['fresh_list', 'fresh_dict', 'fresh_rootless', 'declared_same', 'declared_other_levels',
                'declared_other_nolevels', 'manager']
        J.append(Job('pickle_rt', dict(N=3 if q else 4, L=2, NT=3), need_outcomes=['loaded:' + v for v in
                     ('fresh_list', 'fresh_dict', 'fresh_rootless', 'declared_same', 'declared_other_nolevels', 'manager',
                      'autoref_fresh_list', 'autoref_fresh_dict')] + ['refused']))
        J.append(Job('pickle_rt', dict(N=4, L=2, NT=3, variants=['declared_same', 'declared_other_nolevels', 'manager']),
                     need_outcomes=['loaded:declared_same']))
        J.append(Job('pickle_rt', dict(N=3, L=3, NT=2, variants=['declared_other_nolevels']),
                     need_outcomes=['loaded:declared_other_nolevels']))
        jv = ['fresh_list', 'fresh_dict', 'fresh_order', 'other_order', 'other_order_load_order']
        J.append(Job('json_rt', dict(N=3, L=2, variants=jv), need_outcomes=['loaded:' + v for v in jv]))
        J.append(Job('json_rt', dict(N=2 if q else 3, L=2, variants=['same']), need_outcomes=['loaded:same']))
        if not q:
            J.append(Job('json_rt', dict(N=3, L=3, variants=['fresh_list', 'other_order']),
                         need_outcomes=['loaded:fresh_list', 'loaded:other_order']))
            J.append(Job('json_rt', dict(N=4, L=2, variants=['fresh_dict', 'other_order_load_order']),
                         need_outcomes=['loaded:fresh_dict']))
    if pid == 'C13':
        J.append(Job('image', dict(N=4, L=2, styles=['names']), need_outcomes=['returned:preimage', 'returned:image']))
        J.append(Job('image', dict(N=3, L=2, styles=['levels', 'autoref']), need_outcomes=['returned:preimage', 'returned:image']))
        # the same call made first with the other quantifier kind (nothing remembered between calls may leak)
        J.append(Job('image', dict(N=3, L=2, styles=['names'], warm=True), need_outcomes=['returned:preimage', 'returned:image']))
        J.append(Job('image', dict(N=4, L=4, which=['preimage'], minpairs=2, maxpairs=2, styles=['levels'],
                               qsets='values', foralls=[0], forward_only=True),
                     need_outcomes=['returned:preimage']))
        J.append(Job('image', dict(N=3, L=4, which=['image_nonadjacent'], minpairs=2, maxpairs=2,
                               styles=['levels'], qsets='values', foralls=[0]),
                     need_outcomes=['returned:image_nonadjacent']))
        if not q:
            J.append(Job('image', dict(N=3, L=3, maxpairs=1, styles=['names']),
                         need_outcomes=['returned:preimage', 'returned:image', 'returned:image_nonadjacent']))
    if pid == 'C14':
        J.append(Job('k10_addvar', dict(N=4, L=2, via=['bdd', 'autoref']), need_outcomes=['added', 'idempotent', 'refused']))
        J.append(Job('k10_addvar', dict(N=4 if q else 5, L=3), need_outcomes=['added', 'idempotent', 'refused']))
        J.append(Job('k9_undeclare', dict(N=4, L=3), need_outcomes=['removed', 'nothing_removed', 'refused']))
        J.append(Job('k9_undeclare', dict(N=3 if q else 5, L=4 if q else 3), need_outcomes=['removed', 'refused']))
        # the third operation that rewrites the order maps: the views (also the dd.autoref wrapper's)
        J.append(Job('k7_swap', dict(N=4, L=2, x=0, K=2), need_outcomes=['swapped']))
    if pid == 'C15':
        J.append(Job('mdd_ops', dict(K=2 if q else 3, ops=['lemma', 'find_or_add', 'gc']),
                     need_outcomes=['done:lemma', 'done:find_or_add', 'done:gc']))
        J.append(Job('mdd_ops', dict(K=2, ops=['ite'], arities=[[2, 2]] if q else [[2, 2], [3, 2]]),
                     need_outcomes=['done:ite']))
        J.append(Job('mdd_ops', dict(K=1, ops=['apply'], arities=[[2, 2], [3, 2]] if q else [[2, 2], [3, 2], [2, 3]]),
                     need_outcomes=['done:apply']))
        J.append(Job('mdd_conv', dict(N=3, L=2, K=2), need_outcomes=['converted']))
        J.append(Job('mdd_conv', dict(N=2, L=3, K=2), need_outcomes=['converted']))
        if not q:
            J.append(Job('mdd_conv', dict(N=3, L=3, K=2), need_outcomes=['converted']))
            # three nodes over three bits, a one-bit integer above a two-bit one (both bit orders): a node
            # inside the lower zone that is referenced from inside and from outside it
            J.append(Job('mdd_conv', dict(N=4, L=3, K=2, choices=[7, 9]), need_outcomes=['converted']))
    if pid == 'C16':
        J.append(Job('dddmp', dict(M=2, nroots=1), need_outcomes=['loaded']))
        J.append(Job('dddmp', dict(M=3, nroots=2, headers=['v0gap', 'v3'] if q else ['v0', 'v0gap', 'v1', 'v3']),
                     need_outcomes=['loaded']))
    if pid == 'C17':
        J.append(Job('reject', dict(N=3, L=2, fires=1), need_outcomes=['rejected:apply_unknown_op', 'rejected:expr_syntax', 'rejected:var_undeclared']))
        # "variable still in use": the refusals of undeclare_vars (every subset of names) leave the manager as it was
        J.append(Job('k9_undeclare', dict(N=4, L=3), need_outcomes=['removed', 'refused']))
        if not q:
            J.append(Job('reject', dict(N=4, L=2, fires=2), need_outcomes=['rejected:apply_unknown_op', 'rejected:expr_syntax']))
            J.append(Job('reject', dict(N=4, L=3, fires=1), need_outcomes=['rejected:apply_unknown_op', 'rejected:expr_syntax']))
    if pid == 'C18':
        J.append(Job('views', dict(N=4, L=2), need_outcomes=['viewed:' + k for k in
                     ('expand_function', 'expand_succ', 'descendants', 'to_nx', 'to_dot')]))
        J.append(Job('views', dict(N=4 if q else 5, L=3, kinds=['expand_function', 'expand_succ', 'descendants']),
                     need_outcomes=['viewed:descendants', 'viewed:expand_succ']))
        # the views read vars / _level_to_var / _succ: the operations that rewrite them keep them in step
        J.append(Job('k9_undeclare', dict(N=4, L=3), need_outcomes=['removed', 'refused']))
        J.append(Job('k7_swap', dict(N=4, L=2, x=0, K=2, handle=True), need_outcomes=['swapped']))
        if not q:
            J.append(Job('views', dict(N=4, L=3, kinds=['to_nx']), need_outcomes=['viewed:to_nx']))
    if pid == 'C19':
        for w in ('cudd', 'cudd_zdd', 'sylvan', 'buddy'):
            J.append(Job('pyx', dict(which=w), need_outcomes=['compared'], procs=4))
            J.append(Job('pyx_refs', dict(which=w), need_outcomes=['lifecycle'], procs=2))
        for fn in ('_forall', '_exist', '_disjoin', '_conjoin', '_compose', 'add_var', '_c_compose'):
            J.append(Job('pyx_paths', dict(which=fn), need_outcomes=['returned'], procs=2))
    return J


LEVEL_TEXT = {
}
