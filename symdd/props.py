"""Per-property job lists (quick / thorough bounds)."""
from .runner import Job


def jobs(pid, tier):
    q = tier == 'quick'
    J = []
    if pid == 'C01':
        J.append(Job('k1_foa', dict(N=4 if q else 6, L=3, K=1),
                     need_outcomes=['created', 'found_or_eliminated', 'raised']))
    return J


LEVEL_TEXT = {
}
