"""Per-property job lists (quick / thorough bounds)."""
from .runner import Job


def jobs(pid, tier):
    q = tier == 'quick'
    J = []
    if pid == 'C01':
        J.append(Job('k1_foa', dict(N=4 if q else 6, L=3, K=1),
                     need_outcomes=['created', 'found_or_eliminated', 'raised']))
        J.append(Job('k2_topcof', dict(N=4 if q else 6, L=3), need_outcomes=['returned', 'raised']))
        J.append(Job('k3_ite', dict(N=3, L=2, K=2) if q else dict(N=4, L=2, K=3),
                     need_outcomes=['created', 'no_new_node']))
        J.append(Job('k4_ite_ind', dict(NT=4, L=2) if q else dict(NT=5, L=3),
                     need_outcomes=['recursed', 'terminal_or_cached']))
        J.append(Job('k5_apply', dict(N=5, L=3) if q else dict(N=6, L=3),
                     need_outcomes=['returned:' + f for f in
                                    ('not', 'and', 'or', 'xor', 'implies', 'equiv', 'diff',
                                     'forall', 'exists', 'ite')] + ['arity_refused']))
        J.append(Job('k6_autoref_ops', dict(N=5, L=3) if q else dict(N=6, L=3),
                     need_outcomes=['returned:' + o for o in
                                    ('~', '&', '|', 'implies', 'equiv', '<=', '<', '==', '!=', 'ite')]))
    if pid == 'C06':
        J.append(Job('k8_gc', dict(N=4, L=2, roots=0, nondet=True), need_outcomes=['collected', 'nothing_to_collect']))
        J.append(Job('k8_gc', dict(N=5, L=3, roots=0, nondet=not q), need_outcomes=['collected', 'nothing_to_collect']))
        J.append(Job('k8_gc', dict(N=4, L=3, roots=2, nondet=True), need_outcomes=['collected', 'nothing_to_collect']))
    if pid == 'C07':
        J.append(Job('k7_swap', dict(N=4, L=2, x=0, K=2), need_outcomes=['swapped']))
        J.append(Job('k7_swap', dict(N=4, L=3, x=0, K=2), need_outcomes=['swapped']))
        J.append(Job('k7_swap', dict(N=4, L=3, x=1, K=2, by='name'), need_outcomes=['swapped']))
    if pid == 'C03':
        J.append(Job('quant', dict(N=4, L=2), need_outcomes=['returned:' + e for e in
                     ('quantify_names', 'quantify_levels', 'exist_forall', 'apply')]))
        if q:
            J.append(Job('quant', dict(N=5, L=3, maxq=1, entries=['quantify_names']),
                         need_outcomes=['returned:quantify_names']))
        else:
            J.append(Job('quant', dict(N=6, L=3), need_outcomes=['returned:quantify_names']))
    if pid == 'C04':
        J.append(Job('let', dict(N=4, L=2), need_outcomes=['returned:' + e for e in
                     ('cofactor', 'compose1', 'compose2', 'rename', 'empty')]))
        J.append(Job('let', dict(N=4 if q else 5, L=3, kinds=['cofactor', 'compose1', 'rename']),
                     need_outcomes=['returned:cofactor', 'returned:compose1', 'returned:rename']))
        if not q:
            J.append(Job('let', dict(N=5, L=3, kinds=['compose2']), need_outcomes=['returned:compose2']))
    if pid == 'C10':
        J.append(Job('sat', dict(N=4, L=2), need_outcomes=['returned:' + e for e in
                     ('support', 'essential', 'count', 'pick_iter', 'pick')]))
        J.append(Job('sat', dict(N=4 if q else 5, L=3), need_outcomes=['returned:' + e for e in
                     ('support', 'essential', 'count', 'pick_iter', 'pick')]))
    return J


LEVEL_TEXT = {
}
