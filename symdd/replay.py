"""python -m symdd.replay <file>: re-run the concrete replay of a recorded case."""
import importlib
import json
import sys


def main():
    d = json.load(open(sys.argv[1]))
    case = d['case']
    hmod = importlib.import_module('symdd.harness.' + case['harness'])
    res = hmod.replay(case)
    print(json.dumps(res, indent=1, default=str))
    sys.exit(1 if res.get('violates') else 0)


if __name__ == '__main__':
    main()
