"""Run the harness jobs of one property, validate the encoding against the
real code, replay counterexamples, apply the reporting rule (DESIGN.md 7),
write the evidence file."""
import hashlib
import importlib
import inspect
import json
import os
import random
import sys
import time
import traceback

from . import engine, base

VERIF = os.path.dirname(os.path.dirname(os.path.abspath(__file__)))
EXIT_OK, EXIT_VIOLATION, EXIT_INCONCLUSIVE = 0, 1, 2


def load_known():
    p = os.path.join(VERIF, 'known_findings.json')
    if not os.path.exists(p):
        return []
    with open(p) as f:
        return json.load(f).get('findings', [])


def func_hashes(names):
    out = {}
    # source files that are analysed as text (Cython wrappers)
    for fn in ('cudd.pyx', 'cudd_zdd.pyx', 'sylvan.pyx', 'buddy.pyx'):
        if any(n == 'pyx:' + fn for n in names):
            try:
                out['dd/' + fn] = hashlib.sha256(open(os.path.join(base.REPO, 'dd', fn), 'rb').read()).hexdigest()[:16]
            except OSError as e:
                out['dd/' + fn] = 'unavailable: ' + type(e).__name__
    names = [n for n in names if not n.startswith('pyx:')]
    for qn in names:
        try:
            parts = qn.split('.')
            obj = None
            for cut in range(len(parts), 0, -1):
                try:
                    obj = base.import_dd('.'.join(parts[:cut]))
                    rest = parts[cut:]
                    break
                except ImportError:
                    continue
            for p in rest:
                obj = getattr(obj, p)
            obj = inspect.unwrap(obj) if callable(obj) else obj
            if isinstance(obj, property):
                obj = obj.fget
            src = inspect.getsource(obj)
            out[qn] = hashlib.sha256(src.encode()).hexdigest()[:16]
        except Exception as e:
            out[qn] = 'unavailable: ' + type(e).__name__
    return out


class Job:
    def __init__(self, mod, params=None, label=None, max_paths=None,
                 need_outcomes=(), timeout_s=None, validate=200, procs=None):
        self.mod = mod if '.' in mod else 'symdd.harness.' + mod
        self.params = params or {}
        self.label = label or (mod + str(sorted(self.params.items())))
        self.max_paths = max_paths
        self.need_outcomes = tuple(need_outcomes)
        self.timeout_s = timeout_s
        self.validate = validate
        self.procs = procs


class Report:
    def __init__(self, pid, tier, seed):
        self.pid, self.tier, self.seed = pid, tier, seed
        self.t0 = time.time()
        self.jobs = []
        self.violations = []      # reproduced, not known
        self.known_hits = []      # reproduced, listed
        self.inconclusive = []    # strings
        self.samples = []
        self.functions = set()
        self.assumptions = []
        self.cuts = []
        self.stubs = []
        self.totals = dict(paths=0, queries=0, solver_s=0.0, branches=0,
                           proved=0, sat=0, unknown=0, validated=0, oob=0,
                           aborted=0, goals=0)
        self.extra = {}

    def note(self, **kw):
        for k, v in kw.items():
            if k == 'functions':
                self.functions.update(v)
            elif k == 'assumptions':
                self.assumptions += [a for a in v if a not in self.assumptions]
            elif k == 'cuts':
                self.cuts += [a for a in v if a not in self.cuts]
            elif k == 'stubs':
                self.stubs += [a for a in v if a not in self.stubs]
            else:
                self.extra[k] = v


def _replay_file(pid, case, res):
    d = os.path.join(VERIF, 'replays')
    os.makedirs(d, exist_ok=True)
    blob = json.dumps(case, sort_keys=True)
    h = hashlib.sha256(blob.encode()).hexdigest()[:12]
    p = os.path.join(d, f'{pid}-{h}.json')
    with open(p, 'w') as f:
        json.dump(dict(property=pid, case=case, verdict=res), f, indent=1, sort_keys=True, default=str)
    return p


def explore_job(job):
    deadline = time.time() + job.timeout_s if job.timeout_s else None
    return engine.explore(job.mod, job.params, max_paths=job.max_paths,
                          deadline=deadline, procs=job.procs)


EARLY_PER_JOB = 12


def run_jobs(rep, jobs, known, concurrent=3, echo=True):
    """Explore up to `concurrent` jobs at a time (each on its own set of
    worker processes, all driven from this thread); post-process in order.
    Counterexamples are replayed as soon as their path arrives; the first one
    that reproduces on the real code (and is not a listed known finding) ends
    the run: the verdict is a violation and the rest of the exploration cannot
    change it."""
    specs = [dict(mod=j.mod, params=j.params, procs=j.procs, max_paths=j.max_paths,
                  timeout_s=j.timeout_s) for j in jobs]
    early_n = {}
    rep.early_sigs = set()

    early_seen = dict(paths=0, queries=0)
    rep.early_seen = early_seen

    def watch(i, new):
        job = jobs[i]
        early_seen['paths'] += len(new)
        early_seen['queries'] += sum(r.get('nq', 0) for r in new)
        for r in new:
            if r.get('status') != 'ok' or not r.get('out'):
                continue
            for g in r['out'].get('goals', []):
                if g.get('status') != 'sat':
                    continue
                case = g.get('case')
                if case is None or 'extract_error' in (case or {}):
                    continue
                if early_n.get(i, 0) >= EARLY_PER_JOB:
                    return False
                sig = job.label + json.dumps(case, sort_keys=True) + g['name']
                if sig in rep.early_sigs:
                    continue
                rep.early_sigs.add(sig)
                early_n[i] = early_n.get(i, 0) + 1
                hmod = importlib.import_module(job.mod)
                case2 = dict(case, goal=g['name'])
                try:
                    res = hmod.replay(case2)
                except Exception:
                    rep.inconclusive.append(f'{job.label}: replay of counterexample crashed: {traceback.format_exc()[-800:]}')
                    continue
                _report_cex(rep, job, g, case2, res, known)
                if rep.violations:
                    return True
        return False

    done = set()
    for i, results, stats in engine.explore_many(specs, concurrent, watch=watch):
        done.add(i)
        j = run_job(rep, jobs[i], known, results, stats)
        if echo:
            print(f'  job {j["label"]}: paths={j["paths"]} queries={j["queries"]} '
                  f'wall={j["wall_s"]}s outcomes={j["outcomes"]}', flush=True)
        if rep.violations:
            break
    if rep.violations and len(done) < len(jobs):
        # what was explored before the run was stopped (jobs that did not complete included)
        rep.totals['paths'] = max(rep.totals['paths'], early_seen['paths'], 1)
        rep.totals['queries'] = max(rep.totals['queries'], early_seen['queries'], 1)
        rep.extra['stopped_at_first_confirmed_violation'] = True
        rep.extra['jobs_not_completed'] = [jobs[i].label for i in range(len(jobs)) if i not in done]
        for i in range(len(jobs)):
            if i not in done:
                hmod = importlib.import_module(jobs[i].mod)
                rep.functions.update(getattr(hmod, 'FUNCTIONS', []))


def run_job(rep, job, known, results=None, stats=None):
    hmod = importlib.import_module(job.mod)
    rep.functions.update(getattr(hmod, 'FUNCTIONS', []))
    rep.note(assumptions=getattr(hmod, 'ASSUMPTIONS', []),
             cuts=getattr(hmod, 'CUTS', []), stubs=getattr(hmod, 'STUBS', []))
    if results is None:
        results, stats = explore_job(job)
    jrec = dict(label=job.label, harness=job.mod.split('.')[-1], params=job.params,
                **stats)
    outcomes = {}
    goals_by_name = {}
    cex = []
    wits = []
    for r in results:
        st = r['status']
        if st == 'abort':
            rep.totals['aborted'] += 1
            continue
        if st.startswith('oob'):
            rep.totals['oob'] += 1
            outcomes['out_of_bound'] = outcomes.get('out_of_bound', 0) + 1
            continue
        if st != 'ok':
            rep.inconclusive.append(f'{job.label}: path status {st[:600]}')
            continue
        out = r['out']
        if out is None:
            continue
        oc = out.get('outcome', 'returned')
        outcomes[oc] = outcomes.get(oc, 0) + 1
        for g in out.get('goals', []):
            rep.totals['goals'] += 1
            rec = goals_by_name.setdefault(g['name'], dict(unsat=0, sat=0, unknown=0, t=0.0))
            rec[g['status'] if g['status'] in rec else 'unknown'] += 1
            rec['t'] = round(rec['t'] + g['t'], 3)
            if g['status'] == 'unsat':
                rep.totals['proved'] += 1
            elif g['status'] == 'sat':
                rep.totals['sat'] += 1
                cex.append((g, out))
            else:
                rep.totals['unknown'] += 1
                rep.inconclusive.append(f'{job.label}: goal {g["name"]} {g["status"]}')
        if out.get('witness') is not None:
            wits.append(out)
    jrec['outcomes'] = outcomes
    jrec['goals'] = goals_by_name
    for k in ('paths', 'queries', 'branches'):
        rep.totals[k] += stats[k]
    rep.totals['solver_s'] = round(rep.totals['solver_s'] + stats['solver_s'], 2)
    if not stats['complete']:
        rep.inconclusive.append(f'{job.label}: exploration incomplete ({stats["left"]} prefixes left)')
    for oc in job.need_outcomes:
        if not any(k == oc or k.startswith(oc) for k in outcomes):
            rep.inconclusive.append(f'{job.label}: outcome class "{oc}" never reached (vacuity guard)')
    # ---- 7.3 replay of counterexamples
    seen = set()
    for g, out in cex:
        case = g.get('case')
        if case is None or 'extract_error' in (case or {}):
            rep.inconclusive.append(f'{job.label}: goal {g["name"]} sat but no model extracted: {case}')
            continue
        sig = json.dumps(case, sort_keys=True)
        if sig in seen:
            continue
        seen.add(sig)
        if job.label + sig + g['name'] in getattr(rep, 'early_sigs', ()):
            continue            # already replayed when its path arrived
        case = dict(case, goal=g['name'])
        try:
            res = hmod.replay(case)
        except Exception:
            rep.inconclusive.append(f'{job.label}: replay of counterexample crashed: {traceback.format_exc()[-800:]}')
            continue
        _report_cex(rep, job, g, case, res, known)
    # ---- 7.2 validation of the encoding on path witnesses
    rnd = random.Random(rep.seed)
    if len(wits) > job.validate:
        wits = rnd.sample(wits, job.validate)
    nval = 0
    for out in wits:
        case = out['witness']
        if 'extract_error' in case:
            rep.inconclusive.append(f'{job.label}: witness extraction failed {case}')
            continue
        try:
            res = hmod.replay(case)
        except Exception:
            rep.inconclusive.append(f'{job.label}: concrete replay crashed: {traceback.format_exc()[-800:]}')
            continue
        if res.get('invalid_pre'):
            rep.inconclusive.append(f'{job.label}: witness pre-state invalid: {res.get("detail")}')
            continue
        nval += 1
        if res.get('violates'):
            # the real code violates the property on a concrete state the
            # symbolic run considered fine: either a genuine violation the
            # goals missed or an encoding error.  Report as violation only
            # through the replay rule (it did reproduce concretely).
            _report_cex(rep, job, dict(name='concrete-witness', kind='property'), case, res, known)
            continue
        exp = out.get('expect') or {}
        obs = res.get('observed') or {}
        for k, v in exp.items():
            if k in obs and obs[k] != v:
                rep.inconclusive.append(
                    f'{job.label}: encoding mismatch on {k}: symbolic {v!r} vs concrete {obs[k]!r} (case {json.dumps(case)[:400]})')
                break
        if len(rep.samples) < 4 and rnd.random() < 0.3:
            rep.samples.append(dict(harness=job.label, path_outcome=out.get('outcome'),
                                    model=case, concrete=obs))
    if wits and not rep.samples:
        out = wits[0]
        rep.samples.append(dict(harness=job.label, path_outcome=out.get('outcome'),
                                model=out['witness']))
    rep.totals['validated'] += nval
    jrec['validated'] = nval
    rep.jobs.append(jrec)
    return jrec


def _report_cex(rep, job, g, case, res, known):
    if res.get('invalid_pre'):
        rep.inconclusive.append(
            f'{job.label}: model for goal {g["name"]} is not a valid manager state ({res.get("detail")}): invariant too weak / encoding error')
        return
    if not res.get('violates'):
        rep.inconclusive.append(
            f'{job.label}: model for goal {g["name"]} ({g.get("kind")}) does not reproduce on the real code: {res.get("detail") or res.get("skipped")} case={json.dumps(case)[:500]}')
        return
    key = f'{rep.pid}/{res.get("key", "unkeyed")}'
    for kf in known:
        if kf.get('property') == rep.pid and kf.get('status', 'open') == 'open' and kf.get('key') == key:
            if key not in [k for k, _ in rep.known_hits]:
                rep.known_hits.append((key, kf.get('what', '')))
            return
    if any(v['key'] == key for v in rep.violations) and len(rep.violations) >= 3:
        return
    # 7.3 step 3: the same judgement on a state re-created by public calls only
    via_public = None
    try:
        from . import concrete
        hmod = importlib.import_module(job.mod)
        concrete.PUBLIC_MODE, concrete.LAST_PUBLIC = True, None
        res2 = hmod.replay(case)
        if concrete.LAST_PUBLIC:
            via_public = bool(res2.get('violates'))
    except Exception:
        via_public = None
    finally:
        concrete.PUBLIC_MODE = False
    res = dict(res, reproduced_on_state_built_by_public_calls=via_public)
    path = _replay_file(rep.pid, case, res)
    rep.violations.append(dict(key=key, detail=res.get('detail'), replay=path,
                               harness=job.label, goal=g['name'], via_public=via_public))


def finish(rep, level_text=''):
    wall = round(time.time() - rep.t0, 2)
    ev = dict(
        property_id=rep.pid, tier=rep.tier, seed=rep.seed, level='model_checking',
        coverage=dict(
            states=rep.totals['paths'],
            transitions=rep.totals['queries'],
            traces_validated_against_impl=rep.totals['validated'],
            samples=rep.samples or [dict(note='no witness produced')],
            explanation=level_text,
            functions_encoded=func_hashes(sorted(rep.functions)),
            bounds=[dict(harness=j['label'], **j['params']) for j in rep.jobs],
            queries=rep.totals['queries'],
            goals_checked=rep.totals['goals'],
            goals_unsat=rep.totals['proved'],
            goals_sat=rep.totals['sat'],
            goals_unknown=rep.totals['unknown'],
            solver_s=rep.totals['solver_s'],
            out_of_bound_paths=rep.totals['oob'],
            infeasible_paths=rep.totals['aborted'],
            branch_points=rep.totals['branches'],
            jobs=rep.jobs,
            stubs=rep.stubs, cuts=rep.cuts,
            known_findings_hit=[k for k, _ in rep.known_hits],
            inconclusive=rep.inconclusive[:20],
            exhaustive=not rep.inconclusive,
            **rep.extra),
        assumptions=rep.assumptions or ['z3 4.x/5.x is sound', 'CPython executes the real functions on the proxies faithfully (validated per run by concrete replay of path witnesses)'],
        wall_s=wall,
        violations=len(rep.violations),
    )
    # checks against a scratch copy (tools/mutate.py, seeds) write their evidence elsewhere: the
    # committed evidence always describes a run against /repo itself
    evdir = os.environ.get('SYMDD_EVIDENCE_DIR') or os.path.join(VERIF, 'evidence')
    os.makedirs(evdir, exist_ok=True)
    with open(os.path.join(evdir, f'{rep.pid}.json'), 'w') as f:
        json.dump(ev, f, indent=1, default=str)
    for key, what in rep.known_hits:
        print(f'KNOWN-FINDING: property={rep.pid} {key}: {what}')
    for v in rep.violations:
        print(f'VIOLATION property={rep.pid} replay={v["replay"]}')
        pub = {True: ' [also reproduced on a state re-created through public calls only]',
               False: ' [NOT reproduced on the state re-created through public calls]',
               None: ''}[v.get('via_public')]
        print(f'  {v["key"]}: {v["detail"]} [{v["harness"]} goal {v["goal"]}]{pub}')
    t = rep.totals
    print(f'[{rep.pid} {rep.tier}] paths={t["paths"]} queries={t["queries"]} goals={t["goals"]} '
          f'unsat={t["proved"]} sat={t["sat"]} unknown={t["unknown"]} validated={t["validated"]} '
          f'oob={t["oob"]} solver_s={t["solver_s"]} wall_s={wall}')
    if rep.violations:
        return EXIT_VIOLATION
    if rep.inconclusive:
        for s in rep.inconclusive[:12]:
            print('INCONCLUSIVE:', s)
        return EXIT_INCONCLUSIVE
    return EXIT_OK
