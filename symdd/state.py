"""Symbolic manager state, representation invariant, ghost denotation and the
table proxies that are installed as instance attributes of a real
`dd.bdd.BDD` (DESIGN.md section 4)."""
import z3

from . import engine
from .engine import SymInt, SymBool, _z

I = z3.IntSort()
Bo = z3.BoolSort()


def zabs(e):
    return z3.If(e < 0, -e, e)


class State:
    """z3 terms describing the tables of a BDD manager."""

    FIELDS = ('P', 'LV', 'LO', 'HI', 'PR', 'RP', 'RF', 'IT', 'MF')

    def __init__(self, tag=''):
        self.P = z3.Array(f'P{tag}', I, Bo)        # node present in _succ
        self.LV = z3.Array(f'LV{tag}', I, I)       # level
        self.LO = z3.Array(f'LO{tag}', I, I)       # low edge (signed)
        self.HI = z3.Array(f'HI{tag}', I, I)       # high edge
        self.PR = z3.Array(f'PR{tag}', I, I, I, I)  # _pred, 0 = absent
        self.RP = z3.Array(f'RP{tag}', I, Bo)      # key present in _ref
        self.RF = z3.Array(f'RF{tag}', I, I)       # reference count
        self.IT = z3.Array(f'IT{tag}', I, I, I, I)  # _ite_table, 0 = absent
        self.MF = z3.Int(f'MF{tag}')               # _min_free

    def copy(self):
        s = State.__new__(State)
        s.__dict__.update(self.__dict__)
        return s


class Den:
    """Ghost denotation: node -> truth table as BitVec(2^L).

    Bit `a` of the table is the value under the assignment whose i-th bit is
    the value of the variable at level i.
    """

    def __init__(self, L, tag=''):
        self.L = L
        self.W = 2 ** L
        self.D = z3.Array(f'DEN{tag}', I, z3.BitVecSort(self.W))
        self.ones = z3.BitVecVal(2 ** self.W - 1, self.W)
        self.zero = z3.BitVecVal(0, self.W)
        self.varmask = []
        for i in range(L):
            m = 0
            for a in range(self.W):
                if (a >> i) & 1:
                    m |= 1 << a
            self.varmask.append(m)
        self.varbv = [z3.BitVecVal(m, self.W) for m in self.varmask]

    def var(self, lvl):
        """Truth table of the variable at (symbolic or concrete) level."""
        if isinstance(lvl, int):
            return self.varbv[lvl]
        r = self.varbv[self.L - 1]
        for i in range(self.L - 2, -1, -1):
            r = z3.If(lvl == i, self.varbv[i], r)
        return r

    def s(self, e):
        """Denotation of the signed edge `e` (z3 Int)."""
        return z3.If(e < 0, ~z3.Select(self.D, -e), z3.Select(self.D, e))

    def node_eq(self, st, k):
        """Local defining equation of the non-terminal node k in state st."""
        x = self.var(z3.Select(st.LV, k))
        lo = z3.Select(st.LO, k)
        hi = z3.Select(st.HI, k)
        return z3.Select(self.D, k) == ((x & self.s(hi)) | (~x & self.s(lo)))

    def ite(self, g, a, b):
        return (g & a) | (~g & b)

    def axioms(self, st, ids):
        cs = [z3.Select(self.D, 1) == self.ones]
        for k in ids:
            if k == 1:
                continue
            cs.append(z3.Implies(z3.Select(st.P, k), self.node_eq(st, k)))
        return cs


# --------------------------------------------------------------------------
# invariant clauses

def node_ok(st, k, L, lo_id, hi_id, with_pred=True):
    """I2 (+ first half of I3) for the present non-terminal node k."""
    lv, lo, hi = z3.Select(st.LV, k), z3.Select(st.LO, k), z3.Select(st.HI, k)
    al = zabs(lo)
    cs = [
        0 <= lv, lv < L,
        hi > 0, lo != 0, lo != hi,
        al >= lo_id, al <= hi_id, hi <= hi_id,
        z3.Select(st.P, al), z3.Select(st.P, hi),
        z3.Select(st.LV, al) > lv, z3.Select(st.LV, hi) > lv,
    ]
    if with_pred:
        cs.append(z3.Select(st.PR, lv, lo, hi) == k)
    return z3.And(cs)


def inv_struct(st, ids, L, with_pred=True):
    """I1, I2 and the first half of I3 over the node slots `ids`."""
    lo_id, hi_id = min(ids), max(ids)
    cs = [z3.Select(st.P, 1), z3.Select(st.LV, 1) == L]
    for k in ids:
        if k == 1:
            continue
        cs.append(z3.Implies(z3.Select(st.P, k),
                             node_ok(st, k, L, lo_id, hi_id, with_pred)))
    return cs


def pred_axiom_at(st, maxid, a, b, c):
    """Second half of I3 instantiated at the key (a, b, c)."""
    r = z3.Select(st.PR, a, b, c)
    return z3.Implies(r != 0, z3.And(
        r >= 2, r <= maxid, z3.Select(st.P, r),
        z3.Select(st.LV, r) == a, z3.Select(st.LO, r) == b,
        z3.Select(st.HI, r) == c))


def present(st, e, maxid):
    a = zabs(e)
    return z3.And(a >= 1, a <= maxid, z3.Select(st.P, a))


def ite_axiom_at(st, den, maxid, g, u, v):
    """I6 instantiated at the key (g, u, v): a remembered result is right."""
    r = z3.Select(st.IT, g, u, v)
    return z3.Implies(r != 0, z3.And(
        present(st, g, maxid), present(st, u, maxid), present(st, v, maxid),
        present(st, r, maxid),
        den.s(r) == den.ite(den.s(g), den.s(u), den.s(v))))


def indeg(st, ids, k):
    terms = []
    for j in ids:
        if j == 1:
            continue
        pj = z3.Select(st.P, j)
        lo, hi = z3.Select(st.LO, j), z3.Select(st.HI, j)
        terms.append(z3.If(z3.And(pj, zabs(lo) == k), 1, 0))
        terms.append(z3.If(z3.And(pj, hi == k), 1, 0))
    return z3.Sum(terms) if terms else z3.IntVal(0)


def inv_refs(st, ids, ext, ext_ids=None):
    """I4: keys of _ref = keys of _succ; count = in-degree + ledger."""
    cs = []
    for k in ids:
        pk = z3.Select(st.P, k)
        e = z3.Select(ext, k) if (ext_ids is None or k in ext_ids) else z3.IntVal(0)
        cs.append(z3.Select(st.RP, k) == pk)
        cs.append(z3.Implies(pk, z3.Select(st.RF, k) == indeg(st, ids, k) + e))
    return cs


def ext_axioms(st, ids, ext):
    cs = []
    for k in ids:
        cs.append(z3.Select(ext, k) >= 0)
        cs.append(z3.Implies(z3.Not(z3.Select(st.P, k)), z3.Select(ext, k) == 0))
    return cs


def inv_minfree(st, maxid):
    """I5: MF is the least unused number >= 2 (maxid+1 if all are used)."""
    cs = [st.MF >= 2, st.MF <= maxid + 1,
          z3.Or(st.MF == maxid + 1, z3.Not(z3.Select(st.P, st.MF)))]
    for k in range(2, maxid + 1):
        cs.append(z3.Implies(k < st.MF, z3.Select(st.P, k)))
    return cs


def absent_above(st, lo, hi):
    cs = []
    for k in range(lo, hi + 1):
        cs.append(z3.Not(z3.Select(st.P, k)))
        cs.append(z3.Not(z3.Select(st.RP, k)))
    return cs


def same_nodes(st0, st, ids):
    """Every node of st0 over `ids` is present and unchanged in st."""
    cs = []
    for k in ids:
        cs.append(z3.Implies(z3.Select(st0.P, k), z3.And(
            z3.Select(st.P, k),
            z3.Select(st.LV, k) == z3.Select(st0.LV, k),
            z3.Select(st.LO, k) == z3.Select(st0.LO, k),
            z3.Select(st.HI, k) == z3.Select(st0.HI, k))))
    return cs


def state_equal(st0, st, ids, with_cache=True):
    cs = [st.MF == st0.MF, st.PR == st0.PR]
    if with_cache:
        cs.append(st.IT == st0.IT)
    for k in ids:
        cs.append(z3.Select(st.P, k) == z3.Select(st0.P, k))
        cs.append(z3.Select(st.RP, k) == z3.Select(st0.RP, k))
        cs.append(z3.Implies(z3.Select(st0.P, k), z3.And(
            z3.Select(st.LV, k) == z3.Select(st0.LV, k),
            z3.Select(st.LO, k) == z3.Select(st0.LO, k),
            z3.Select(st.HI, k) == z3.Select(st0.HI, k),
            z3.Select(st.RF, k) == z3.Select(st0.RF, k))))
    return z3.And(cs)


# --------------------------------------------------------------------------
# table proxies

class SuccTab:
    """Proxy for `BDD._succ` over the slots 1..maxid."""

    def __init__(self, st, maxid):
        self.st = st
        self.maxid = maxid

    def _present(self, k):
        kz = _z(k)
        return z3.And(kz >= 1, kz <= self.maxid, z3.Select(self.st.P, kz))

    def __contains__(self, k):
        if k is None:
            return False
        return bool(SymBool(self._present(k)))

    def _tuple(self, kz):
        lv = SymInt(z3.simplify(z3.Select(self.st.LV, kz)))
        if SymBool(kz == 1):
            return (lv, None, None)
        return (lv,
                SymInt(z3.simplify(z3.Select(self.st.LO, kz))),
                SymInt(z3.simplify(z3.Select(self.st.HI, kz))))

    def __getitem__(self, k):
        if not SymBool(self._present(k)):
            raise KeyError(k)
        return self._tuple(_z(k))

    def get(self, k, default=None):
        if not SymBool(self._present(k)):
            return default
        return self._tuple(_z(k))

    def setdefault(self, k, t):
        if SymBool(self._present(k)):
            return self._tuple(_z(k))
        self[k] = t
        return t

    def __len__(self):
        terms = [z3.If(z3.Select(self.st.P, k), 1, 0)
                 for k in range(1, self.maxid + 1)]
        return SymInt(z3.Sum(terms)).concretize()

    def symlen(self):
        terms = [z3.If(z3.Select(self.st.P, k), 1, 0)
                 for k in range(1, self.maxid + 1)]
        return z3.Sum(terms)

    def __bool__(self):
        return True     # the terminal is always there

    def __iter__(self):
        for k in range(1, self.maxid + 1):
            if SymBool(z3.Select(self.st.P, k)):
                yield k

    def keys(self):
        return list(iter(self))

    def items(self):
        for k in list(iter(self)):
            yield k, self._tuple(z3.IntVal(k))

    def values(self):
        for k in list(iter(self)):
            yield self._tuple(z3.IntVal(k))

    def pop(self, k, *default):
        if not SymBool(self._present(k)):
            if default:
                return default[0]
            raise KeyError(k)
        t = self._tuple(_z(k))
        self.st.P = z3.Store(self.st.P, _z(k), False)
        return t

    def __setitem__(self, k, t):
        kz = _z(k)
        if not SymBool(z3.And(kz >= 1, kz <= self.maxid)):
            raise engine.OutOfBound('node number beyond the spare slots')
        i, v, w = t
        st = self.st
        st.P = z3.Store(st.P, kz, True)
        st.LV = z3.Store(st.LV, kz, _z(i))
        if v is None:
            return
        st.LO = z3.Store(st.LO, kz, _z(v))
        st.HI = z3.Store(st.HI, kz, _z(w))


class Tab3:
    """Proxy for a dict keyed by integer triples with non-zero int values
    (0 encodes "absent").  `axiom(a, b, c)` returns the universally
    quantified half of the invariant instantiated at that key; it is assumed
    whenever a key is looked up."""

    def __init__(self, st, attr, axiom=None):
        self.st, self.attr = st, attr
        self.axiom = axiom
        self.lookups = []

    def _key(self, t):
        a, b, c = t
        if b is None or c is None:
            return None
        return _z(a), _z(b), _z(c)

    def _sel(self, key):
        if self.axiom is not None:
            engine.CTX.assume(self.axiom(*key))
        self.lookups.append(key)
        return z3.Select(getattr(self.st, self.attr), *key)

    def get(self, t, default=None):
        key = self._key(t)
        if key is None:
            return default
        r = self._sel(key)
        if SymBool(r == 0):
            return default
        return SymInt(z3.simplify(r))

    def __contains__(self, t):
        key = self._key(t)
        if key is None:
            return False
        return bool(SymBool(self._sel(key) != 0))

    def __getitem__(self, t):
        r = self.get(t)
        if r is None:
            raise KeyError(t)
        return r

    def pop(self, t, *default):
        key = self._key(t)
        if key is None:
            # the terminal's entry (level, None, None): not modelled
            if default:
                return default[0]
            raise KeyError(t)
        r = self.get(t)
        if r is None:
            if default:
                return default[0]
            raise KeyError(t)
        arr = getattr(self.st, self.attr)
        setattr(self.st, self.attr, z3.Store(arr, *key, z3.IntVal(0)))
        return r

    def __setitem__(self, t, u):
        key = self._key(t)
        if key is None:
            return
        arr = getattr(self.st, self.attr)
        setattr(self.st, self.attr, z3.Store(arr, *key, _z(u)))


class RefTab:
    """Proxy for `BDD._ref`."""

    def __init__(self, st, maxid):
        self.st = st
        self.maxid = maxid

    def _present(self, k):
        kz = _z(k)
        return z3.And(kz >= 1, kz <= self.maxid, z3.Select(self.st.RP, kz))

    def __contains__(self, k):
        return bool(SymBool(self._present(k)))

    def __iter__(self):
        for k in range(1, self.maxid + 1):
            if SymBool(z3.Select(self.st.RP, k)):
                yield k

    def keys(self):
        return list(iter(self))

    def values(self):
        for k in list(iter(self)):
            yield self[k]

    def items(self):
        for k in list(iter(self)):
            yield k, self[k]

    def pop(self, k, *default):
        if not SymBool(self._present(k)):
            if default:
                return default[0]
            raise KeyError(k)
        v = SymInt(z3.simplify(z3.Select(self.st.RF, _z(k))))
        self.st.RP = z3.Store(self.st.RP, _z(k), False)
        return v

    def __getitem__(self, k):
        if not SymBool(self._present(k)):
            raise KeyError(k)
        return SymInt(z3.simplify(z3.Select(self.st.RF, _z(k))))

    def setdefault(self, k, v):
        if SymBool(self._present(k)):
            return SymInt(z3.simplify(z3.Select(self.st.RF, _z(k))))
        self[k] = v
        return v

    def __setitem__(self, k, v):
        kz = _z(k)
        self.st.RP = z3.Store(self.st.RP, kz, True)
        self.st.RF = z3.Store(self.st.RF, kz, _z(v))
