"""Contract stubs for `ite` and `find_or_add` (mode M, DESIGN.md section 5).

The manager's own nodes (slots 1..N) are read-only.  A stub returns a fresh
symbolic reference r that is either an existing node or a *ghost*: an integer
beyond N whose denotation (ghost array DEN) and level are constrained by the
contract and whose children are never to be read (reading them ends the path
as out-of-bound, so it can never produce a verdict).

Contracts (discharged by K1, K3, K4 on the same tree in the same command):

find_or_add(i, v, w)   obligation: 0 <= i < L, v, w present, level(v) > i,
                       level(w) > i
                       returns r: den(r) = ite(X_i, den w, den v),
                       i <= level(r) <= L
ite(g, u, v)           obligation: operands present
                       returns r: den(r) = ite(den g, den u, den v),
                       level(r) >= min(level g, level u, level v)
canonicity (lemma 4.4) for every returned r: r regular iff the function is
true under the all-true assignment; equal denotation => equal reference, for
the terminal, the N real nodes and earlier results.
"""
import z3

from . import engine
from .engine import SymInt, SymBool, _z
from .state import zabs, SuccTab, RefTab
from .base import Goal


class GhostChild:
    """Placeholder for the children of a stub result."""

    def _boom(self, *a, **k):
        raise engine.OutOfBound('children of a contract-stub result were read')

    __bool__ = __neg__ = __abs__ = __eq__ = __ne__ = __lt__ = __le__ = _boom
    __gt__ = __ge__ = __add__ = __mul__ = __hash__ = __index__ = _boom


GHOST = GhostChild()


class GhostSucc(SuccTab):
    """`_succ` whose key set is the N real slots plus the ghosts."""

    def __init__(self, st, N, world):
        super().__init__(st, N)
        self.world = world

    def _present(self, k):
        kz = _z(k)
        real = z3.And(kz >= 1, kz <= self.maxid, z3.Select(self.st.P, kz))
        gh = [kz == g for g in self.world.ghost_ids]
        return z3.Or([real] + gh)

    def _tuple(self, kz):
        lv = SymInt(z3.simplify(z3.Select(self.st.LV, kz)))
        if SymBool(kz == 1):
            return (lv, None, None)
        if self.world.ghost_ids and SymBool(kz > self.maxid):
            return (lv, GHOST, GHOST)
        return (lv,
                SymInt(z3.simplify(z3.Select(self.st.LO, kz))),
                SymInt(z3.simplify(z3.Select(self.st.HI, kz))))

    def __iter__(self):
        for k in range(1, self.maxid + 1):
            if SymBool(z3.Select(self.st.P, k)):
                yield k
        # ghosts are not enumerated: iteration over the table is outside M mode

    def __setitem__(self, k, t):
        if isinstance(k, int) and k == 1:
            # the terminal moves when a variable is declared
            self.st.LV = z3.Store(self.st.LV, z3.IntVal(1), _z(t[0]))
            return
        raise engine.OutOfBound('node table written in contract-stub mode')

    def setdefault(self, k, t):
        if isinstance(k, int) and k == 1:
            return self._tuple(z3.IntVal(1))
        raise engine.OutOfBound('node table written in contract-stub mode')

    def pop(self, k, *d):
        raise engine.OutOfBound('node table written in contract-stub mode')


class GhostRef(RefTab):
    """`_ref` whose key set is the N real slots plus the ghosts."""

    def __init__(self, st, N, world):
        super().__init__(st, N)
        self.world = world

    def _present(self, k):
        kz = _z(k)
        real = z3.And(kz >= 1, kz <= self.maxid, z3.Select(self.st.RP, kz))
        return z3.Or([real] + [kz == g for g in self.world.ghost_ids])


class StubWorld:
    def __init__(self, m, canon=True):
        self.m = m
        self.ghost_ids = []
        self.results = []
        self.obligations = []
        self.canon = canon
        self.calls = 0
        self.fault_at = None       # C17: raise at this call index
        self.fault_exc = None

    def install(self, bdd):
        m = self.m
        bdd._succ = m.succ = GhostSucc(m.st, m.N, self)
        bdd._ref = m.ref = GhostRef(m.st, m.N, self)
        bdd.ite = self.ite
        bdd.find_or_add = self.foa
        bdd._ite = self._forbidden
        self.bdd = bdd
        return bdd

    def _forbidden(self, *a, **k):
        raise engine.OutOfBound('_ite called directly in contract-stub mode')

    # ---- helpers
    def present(self, e):
        a = zabs(e)
        real = z3.And(a >= 1, a <= self.m.N, z3.Select(self.m.st.P, a))
        return z3.Or([real] + [a == g for g in self.ghost_ids])

    def lvl(self, e):
        return z3.Select(self.m.st.LV, zabs(e))

    def _fresh_result(self, name, want, lvl_lo):
        c = engine.CTX
        m, den = self.m, self.m.den
        r = c.fresh_int(name)
        a = zabs(r)
        c.assume(r != 0)
        c.assume(z3.Implies(a <= m.N, z3.Select(m.st.P, a)))
        c.assume(a <= m.N + 1000)       # numbers of new nodes: some finite range above N
        c.assume(den.s(r) == want)
        c.assume(z3.And(self.lvl(r) >= lvl_lo, self.lvl(r) <= m.L))
        # level of a ghost is < L unless it is the terminal (ghosts are never 1)
        c.assume(z3.Implies(a > m.N, self.lvl(r) < m.L))
        if self.canon:
            W = den.W
            top = z3.Extract(W - 1, W - 1, z3.Select(den.D, a))
            c.assume(top == 1)
            c.assume((den.s(r) == den.ones) == (r == 1))
            c.assume((den.s(r) == den.zero) == (r == -1))
            for k in range(2, m.N + 1):
                c.assume(z3.Implies(
                    z3.And(z3.Select(m.st.P, k),
                           z3.Select(den.D, k) == z3.Select(den.D, a)), a == k))
            for gid in self.ghost_ids:
                c.assume(z3.Implies(z3.Select(den.D, gid) == z3.Select(den.D, a), a == gid))
        c.assume(z3.Select(m.st.RF, a) >= 0)
        # register as ghost candidate (a > N) -- harmless if it is a real node
        self.ghost_ids.append(a)
        self.results.append(r)
        return SymInt(r)

    def _maybe_fault(self):
        self.calls += 1
        if self.fault_at is not None and self.calls == self.fault_at:
            raise self.fault_exc

    # ---- the stubs
    def foa(self, i, v, w):
        self._maybe_fault()
        i, v, w = _z(i), _z(v), _z(w)
        m, den = self.m, self.m.den
        self.obligations.append(Goal(
            f'find_or_add_call_{len(self.obligations)}_ordered',
            z3.And(0 <= i, i < m.L, self.present(v), self.present(w),
                   self.lvl(v) > i, self.lvl(w) > i)))
        x = den.var(i)
        want = (x & den.s(w)) | (~x & den.s(v))
        return self._fresh_result('foa', want, i)

    def ite(self, g, u, v):
        self._maybe_fault()
        g, u, v = _z(g), _z(u), _z(v)
        den = self.m.den
        self.obligations.append(Goal(
            f'ite_call_{len(self.obligations)}_operands_present',
            z3.And(self.present(g), self.present(u), self.present(v))))
        lg, lu, lv = self.lvl(g), self.lvl(u), self.lvl(v)
        mn = z3.If(lg < lu, lg, lu)
        mn = z3.If(lv < mn, lv, mn)
        want = den.ite(den.s(g), den.s(u), den.s(v))
        return self._fresh_result('ite', want, mn)


def assume_canon_real(m):
    """Consequences of INV for the real nodes that the solver would otherwise
    have to re-derive on every query (proved as the lemma of C02): every
    node's function is true under the all-true assignment."""
    c = engine.CTX
    den = m.den
    W = den.W
    for k in m.ids:
        c.assume(z3.Implies(z3.Select(m.st0.P, k),
                            z3.Extract(W - 1, W - 1, z3.Select(den.D, k)) == 1))
