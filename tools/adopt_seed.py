#!/usr/bin/env python3
"""Confirm a seeded defect produced in a scratch worktree and keep it under
/verif/seeded/<name>/.  usage: tools/adopt_seed.py <PID> [name] [--checks C01,C06] [--tier quick]
Steps: (1) with the patch the repository's test suite still has its 105
passes, (2) demo.py fails with the patch and passes without, (3) run the
listed checks against a copy of /repo with the patch applied (DD_REPO),
(4) write meta.json, (5) remove the worktree."""
import argparse
import json
import os
import shutil
import subprocess
import sys
import tempfile

HERE = os.path.dirname(os.path.dirname(os.path.abspath(__file__)))


def sh(cmd, cwd=None, env=None):
    r = subprocess.run(cmd, shell=True, cwd=cwd, env=env, capture_output=True, text=True)
    return r.returncode, (r.stdout + r.stderr)


def main():
    ap = argparse.ArgumentParser()
    ap.add_argument('pid')
    ap.add_argument('name', nargs='?')
    ap.add_argument('--checks')
    ap.add_argument('--tier', default='quick')
    ap.add_argument('--keep-worktree', action='store_true')
    a = ap.parse_args()
    name = a.name or a.pid
    wt = f'/tmp/wt_{name}'
    seed = os.path.join(wt, '_seed')
    out = os.path.join(HERE, 'seeded', name)
    os.makedirs(out, exist_ok=True)
    ran = []
    # regenerate the patch from the worktree (authoritative)
    rc, diff = sh('git diff -- dd/', cwd=wt)
    if not diff.strip():
        diff = open(os.path.join(seed, 'patch.diff')).read()
        sh('git apply _seed/patch.diff', cwd=wt)
    open(os.path.join(out, 'patch.diff'), 'w').write(diff)
    for f in os.listdir(seed):
        if f != 'patch.diff':
            shutil.copy(os.path.join(seed, f), out)
    env = dict(os.environ, PYTHONPATH=wt)
    test = '/venv/bin/python -m pytest -q -p no:cacheprovider --timeout=900 --continue-on-collection-errors 2>&1 | tail -1'
    rc, t_with = sh(test, cwd=wt, env=env)
    ran.append(f'tests with patch: {t_with.strip()}')
    rc_with, o_with = sh('/venv/bin/python _seed/demo.py', cwd=wt, env=env)
    ran.append(f'demo with patch: exit {rc_with}')
    sh('git stash', cwd=wt)
    rc_wo, o_wo = sh('/venv/bin/python _seed/demo.py', cwd=wt, env=env)
    ran.append(f'demo without patch: exit {rc_wo}')
    sh('git stash pop', cwd=wt)
    ok = ('105 passed' in t_with) and rc_with != 0 and rc_wo == 0
    # our checks
    checks = (a.checks or a.pid).split(',')
    det = {}
    for c in checks:
        r = subprocess.run([os.path.join(HERE, 'tools/mutate.py'), c, a.tier, '--patch',
                            os.path.join(out, 'patch.diff')], capture_output=True, text=True)
        lines = r.stdout.strip().splitlines()
        code = [l for l in lines if l.startswith('EXIT')]
        viol = [l for l in lines if l.startswith('VIOLATION') or l.strip().startswith(c + '/')]
        det[c] = dict(exit=code[-1] if code else 'EXIT ?', first=viol[:2])
        ran.append(f'bin/check {c} --tier {a.tier} on patched copy: {det[c]["exit"]}')
    meta_p = os.path.join(out, 'meta.json')
    meta = {}
    if os.path.exists(meta_p):
        try:
            meta = json.load(open(meta_p))
        except Exception:
            meta = dict(agent_meta_unparsed=open(meta_p).read()[:2000])
    meta.update(property=a.pid, confirmed=ok, confirmation=ran, detection=det)
    json.dump(meta, open(meta_p, 'w'), indent=1)
    print(json.dumps(dict(name=name, confirmed=ok, ran=ran, detection=det), indent=1))
    for junk in ('bdd', 'bdd.dot', 'bdd.ext'):
        pass
    if not a.keep_worktree:
        sh(f'git -C /repo worktree remove --force {wt}')
        shutil.rmtree(wt, ignore_errors=True)


if __name__ == '__main__':
    main()
