#!/usr/bin/env python3
"""Regenerate MANIFEST.json from the table below (kept in one place so that
the manifest is always schema-valid and in step with symdd/props.py)."""
import json
import os

HERE = os.path.dirname(os.path.dirname(os.path.abspath(__file__)))

TECH = ('symbolic execution of the real dd functions on z3-backed proxies from an '
        'arbitrary valid manager state; z3 decides each assertion within the bounds; '
        'models replayed on the real code')

CLAIMS = {
    'C01': dict(
        text='Bounded symbolic model checking: find_or_add / ite / apply / Function operators run on a symbolic manager '
             '(arbitrary node table, numbering, warm cache, counts) and z3 proves the returned reference denotes the connective, '
             'for every state and operand within N node numbers, K new nodes, L variables.',
        note='Bounds N,K,L as listed in evidence; z3 and CPython trusted; proxies validated per run by concrete replay of path witnesses.',
        ref='DESIGN.md section 8 C01'),
    'C03': dict(
        text='Bounded symbolic model checking: the real quantify/_quantify/exist/forall and apply(\\A,\\E) run over a symbolic node table; '
             'z3 proves the result equals the bit-vector quantification of the operand for every state/operand within the bounds, every variable subset and both quantifiers.',
        note='ite/find_or_add replaced by contract stubs discharged by the C01 kernels on the same tree; bounds in evidence.',
        ref='DESIGN.md section 8 C03'),
    'C04': dict(
        text='Bounded symbolic model checking of let/cofactor/compose/vector compose/rename against bit-vector simultaneous substitution, '
             'operand, replacement functions and Boolean values symbolic, variable maps iterated.',
        note='ite/find_or_add contract stubs (C01 kernels); bounds in evidence.',
        ref='DESIGN.md section 8 C04'),
    'C05': dict(
        text='Bounded symbolic model checking of the parser: the real LALR tables (regenerated from the current grammar/precedence) and the real translator actions run on every token sequence up to 8-9 tokens that the parser accepts; '
             'operands are symbolic truth tables and z3 decides equality with an independent evaluator written from doc.md. Plus: real to_expr on a symbolic manager followed by the real add_expr (round trip), and the finite table of documented spellings through the real lexer.',
        note='Text layer cut at the token level (symbolic strings are out of reach): the lexer is exercised on every documented spelling and comment form only; the `=` token has no documented meaning and is excluded; apply/quantify/rename behind denotational contracts (K5, C03, C04).',
        ref='DESIGN.md section 8 C05'),
    'C06': dict(
        text='Bounded symbolic model checking of collect_garbage (full and rooted) from an arbitrary valid state with an arbitrary ledger of external references: '
             'referenced nodes and their descendants survive unchanged, exactly the needed nodes remain, counts stay exact, no cache entry names a freed node.',
        note='One inductive step from arbitrary valid state (INV); bounds in evidence; set.pop order explored as nondeterministic choice at the small bound.',
        ref='DESIGN.md section 8 C06'),
    'C07': dict(
        text='Bounded symbolic model checking of swap of adjacent levels from an arbitrary valid state with ledger: held nodes keep number, by-name function and count; manager stays canonical; order maps exchanged.',
        note='One inductive step; schedulers are compositions of swap; bounds in evidence.',
        ref='DESIGN.md section 8 C07'),
    'C02': dict(
        text='Canonicity lemma (pure SMT on the invariant: equal denotation implies equal reference, N<=5..6, L=3) plus bounded symbolic proof that every mutator '
             '(find_or_add, swap, collect_garbage, undeclare_vars, add_var; ite in C01) preserves the reduced-ordered-unique invariant from an arbitrary valid state.',
        note='Inductive step per mutator within bounds; the lemma links denotation equality (all other checks) to reference equality.',
        ref='DESIGN.md sections 4.4 and 8 C02'),
    'C11': dict(
        text='Bounded symbolic model checking of copy_bdd / BDD.copy / dd._copy.copy_bdd / copy_bdds_from / autoref copy: symbolic source manager and operand, symbolic target manager behind ite/find_or_add contracts, every pair of orders; result denotes the same function by name.',
        note='Target-side ite/find_or_add are contract stubs (C01 kernels); bounds in evidence.',
        ref='DESIGN.md section 8 C11'),
    'C13': dict(
        text='Bounded symbolic model checking of image/preimage/_image against the bit-vector relational product (rename, conjoin, quantify) for symbolic transition relation and set, all rename pairings, quantified subsets, both quantifiers, names and levels.',
        note='Documented preconditions assumed: adjacent pairs (preimage), keys disjoint from values, image targets quantified or absent, preimage target does not mention primed variables; ite/find_or_add contract stubs.',
        ref='DESIGN.md section 8 C13'),
    'C14': dict(
        text='Bounded symbolic model checking of add_var/declare (symbolic level) and undeclare_vars (every subset) from an arbitrary valid state: order views stay one bijection, refusals leave everything intact, all functions unchanged by name, manager canonical.',
        note='undeclare_vars runs through the literal-lifting loader (dict comprehensions -> symbolic-key dicts), validated by concrete replay on the unlifted module. One known finding (add_var with a gap level).',
        ref='DESIGN.md section 8 C14'),
    'C15': dict(
        text='Bounded symbolic model checking of the MDD manager: the real MDD.find_or_add, _top_cofactor, ite (unstubbed), apply, collect_garbage, incref/decref, _allocate/_release from an arbitrary valid MDD state over two integer variables (arities 2-3), node contents, counts, ledger and a computed-table entry symbolic; pointwise connectives on <= 9 integer assignments as bit-vectors; MDD canonicity lemma; bdd_to_mdd: every externally referenced BDD node gets an MDD reference with the same values on the corresponding bits, BDD functions and counts intact.',
        note='MDD manager steps: small bounds, node numbers concrete, operand references enumerated by the dict lookups of the real code. bdd_to_mdd (harness mdd_conv): the real conversion (real collect_garbage, reorder/swap, cofactor, MDD.find_or_add) on a symbolic BDD manager with an arbitrary ledger, every partition of 2-3 bits into integer variables; node numbers that index Python containers are fixed by the solver where used; the MDD built per path is compared by the solver with the ghost denotation of the BDD nodes (N=3 L=2, N=2 L=3 quick; N=3 L=3 thorough).',
        ref='DESIGN.md section 8 C15'),
    'C16': dict(
        text='Bounded symbolic model checking of dddmp.load: real header parse of concrete header variants (varinfo 0/1/3, gaps, orderedvarnames), then the real _add_node/load/find_or_add on symbolic node rows (any numbering with children before parents, symbolic children, complement marks, 1-2 roots); z3 proves every element of roots denotes the file\'s root entry by name.',
        note='Cut at the row level: line.split/int() of node lines is replaced by a loop feeding _add_node (text cannot be symbolic); module run through the literal-lifting loader; every model is replayed with a real file on the unlifted module.',
        ref='DESIGN.md section 8 C16'),
    'C19': dict(
        text='Source-level symbolic check of the Cython wrappers (they cannot be built here): the apply body of cudd/cudd_zdd/sylvan/buddy is normalised to Python, executed for each of the 27 operator spellings on symbolic truth tables with the library calls bound to their documented meaning, and z3 decides equality with the real dd.bdd.BDD.apply run on a signed-reference algebra; '
             'wrap/init/__cinit__/__dealloc__/incref/decref run against a symbolic ledger of library references (creation +1, disposal -1, 0 <= _ref <= library count); inside apply a per-node ledger of library reference calls (temporaries released on every path); the raw-reference recursions of cudd_zdd.pyx (_forall, _exist, _disjoin, _conjoin, _compose, _c_compose, add_var) run against an opaque library: on every path the call holds no reference at exit except those of nodes stored in the outliving memo or the returned handle, and memoises under its own computed-table tag.',
        note='Trusted base: the table of library-call meanings (CUDD/Sylvan/BuDDy manuals), the line-level .pyx normaliser (result must ast.parse); Cython code generation and the C libraries are outside the claim. One known finding (sylvan quantifier roles).',
        ref='DESIGN.md section 8 C19',
        technique='symbolic execution of the normalised .pyx method bodies with library stubs on z3 bit-vectors; z3 decides equivalence with the real dd.bdd.BDD.apply for all operand values; symbolic reference ledger'),
    'C08': dict(
        text='Bounded symbolic model checking of dd.autoref handle lifetimes, one step per public method: from an arbitrary valid manager with symbolic counts, after the method every node count has moved by exactly the number of live Function objects created on it, and is back after they are dropped; every result is a Function of this manager on a present node; disposal is idempotent. Plus the swap / collection steps with the ledger read as live handles, and a live handle\'s views across a swap.',
        note='dd.bdd computations under the wrappers are contract stubs returning arbitrary present references; temporaries die by CPython reference counting during the symbolic run.',
        ref='DESIGN.md section 8 C08'),
    'C17': dict(
        text='Bounded symbolic model checking of 25 kinds of rejected calls (unknown operator, arity, foreign node, undeclared names, bad values, syntax errors, dangling @n, unknown file types, bad order, foreign Function, ...) from an arbitrary valid manager with reordering off and on: right after the exception tables/counts/order/flags are intact, and the next valid call (during which a reordering request may fire anywhere) behaves normally.',
        note='ite/find_or_add contract stubs that may request reordering; reorder by contract (identity permutation).',
        ref='DESIGN.md section 8 C17'),
    'C18': dict(
        text='Bounded symbolic model checking of the structural views (no stubs, read-only): Function.var/level/low/high/negated and succ expansions reproduce the function; descendants/len/dag_size equal the reachable set; the networkx graph of to_nx and the DOT text of _to_dot/DotGraph.to_dot, read by an independent evaluator, give the root functions and exactly the reachable nodes.',
        note='graph shape is concretised by the exporters (hashing/formatting); children signs and levels stay symbolic until then; identical parallel edges are accepted as one edge.',
        ref='DESIGN.md section 8 C18'),
    'C09': dict(
        text='Bounded symbolic model checking of the reordering schedule: every node-creation request of every public operation is a symbolic "fire here?" decision; the real _try_to_reorder decorator, _ReorderingContext and all decorated/undecorated entry points run over contract stubs; '
             'reorder is replaced by its contract (every reference not externally held becomes stale). Failures: signal reaches the caller, stale reference used, wrong result, reordering left disabled, context flag not restored.',
        note='reorder contract instantiated with the identity permutation (a cut); counterexamples are replayed on the real code with the growth threshold lowered; 7 known findings (undecorated callers).',
        ref='DESIGN.md section 8 C09'),
    'C12': dict(
        text='Bounded symbolic model checking of pickle dump/load logic (roots as list/dict/None, fresh or pre-declared receiving manager in the same or another order, levels true/false) and of the whole-manager pickle: loaded roots denote the dumped functions by name, receiving manager canonical with exact counts; the same through dd.autoref (Function roots) and for the JSON format.',
        note='open/pickle replaced by an in-memory hand-over (on-disk byte format is outside the claim); replays use real files and real pickle. JSON (dd._copy.dump_json/load_json through dd.autoref): the real code with open/shelve replaced in memory; every number that reaches the JSON text is fixed by the solver where it is formatted (fresh, other-order and same-manager receiving managers).',
        ref='DESIGN.md section 8 C12'),
    'C10': dict(
        text='Bounded symbolic model checking of support/is_essential/count/pick_iter/pick (no stubs, read-only) against bit-vector dependence, popcount and cube-cover oracles for every valid manager and operand within the bounds.',
        note='_assert_int (a Python-type assertion) replaced by identity; levels are concretised by the set/dict lookups of the real code, children and signs stay symbolic.',
        ref='DESIGN.md section 8 C10'),
}

NA_PENDING = 'check not built yet in this round (planned: see DESIGN.md section 8)'


def main():
    props = [json.loads(l) for l in open(os.path.join(HERE, 'properties.jsonl'))]
    checks = []
    na = []
    for p in props:
        pid = p['id']
        c = CLAIMS.get(pid)
        if c is None:
            na.append(dict(property_id=pid, reason=NA_PENDING))
            continue
        checks.append(dict(
            property_id=pid,
            quick_cmd=f'bin/check {pid} --tier quick',
            thorough_cmd=f'bin/check {pid} --tier thorough',
            evidence_file=f'/verif/evidence/{pid}.json',
            replay_cmd_template='bin/replay {path}',
            engine='symdd',
            level_claimed=dict(category='model_checking', text=c['text'], design_ref=c['ref']),
            level_note=c['note'],
            technique=c.get('technique', TECH)))
    m = dict(
        version=1,
        setup_cmd='bin/setup',
        hooks=dict(
            guard='TULIP_CONTROL_DD_VERIF',
            enable='no source hooks: all interception is done from the harness side (instance attributes, names shadowed in the module namespace)',
            baseline_off_cmd='cd /repo && /venv/bin/python -m pytest -ra -q -p no:cacheprovider --timeout=900 --continue-on-collection-errors',
            source_commits=[],
            add_only=True),
        engines=[dict(name='symdd', path='/verif/symdd',
                      serves_properties=[c['property_id'] for c in checks],
                      kind_free_text='own symbolic-execution engine on the z3 Python API: real dd functions executed by CPython on SymInt/SymBool proxies, fork by re-execution, 16 processes')],
        checks=checks,
        notes='Exit codes: 0 held within bounds (KNOWN-FINDING lines possible), 1 VIOLATION (reproduced on the real code), 2 inconclusive / harness error.',
        not_applicable=na)
    with open(os.path.join(HERE, 'MANIFEST.json'), 'w') as f:
        json.dump(m, f, indent=1)
    print('checks', len(checks), 'not_applicable', len(na))


if __name__ == '__main__':
    main()
