#!/bin/sh
# usage: tools/mk_worktree.sh <name>  -> /tmp/wt_<name> (scratch git worktree of /repo HEAD)
set -e
D=/tmp/wt_$1
git -C /repo worktree remove --force "$D" 2>/dev/null || true
rm -rf "$D"
git -C /repo worktree add --detach "$D" HEAD >/dev/null 2>&1
cp /repo/dd/_version.py "$D/dd/_version.py"
mkdir -p "$D/_seed"
echo "$D"
