#!/usr/bin/env python3
"""Self-test helper: copy /repo/dd to a scratch dir, apply one textual
mutation (or a patch file), run a check against the copy via DD_REPO, remove
the copy.  usage:
  tools/mutate.py C01 quick --file dd/bdd.py --old 'X' --new 'Y' [--only k3]
  tools/mutate.py C01 quick --patch seeded/x/patch.diff
"""
import argparse
import os
import shutil
import subprocess
import sys
import tempfile

HERE = os.path.dirname(os.path.dirname(os.path.abspath(__file__)))


def main():
    ap = argparse.ArgumentParser()
    ap.add_argument('pid')
    ap.add_argument('tier', nargs='?', default='quick')
    ap.add_argument('--file', default='dd/bdd.py')
    ap.add_argument('--old')
    ap.add_argument('--new')
    ap.add_argument('--count', type=int, default=1)
    ap.add_argument('--patch')
    ap.add_argument('--only')
    ap.add_argument('--timeout', type=int, default=None)
    a = ap.parse_args()
    d = tempfile.mkdtemp(prefix='ddmut')
    try:
        for item in ('dd', 'tests', 'doc.md', 'setup.py'):
            src = os.path.join('/repo', item)
            if os.path.isdir(src):
                shutil.copytree(src, os.path.join(d, item), ignore=shutil.ignore_patterns('__pycache__'))
            elif os.path.exists(src):
                shutil.copy(src, d)
        if a.patch:
            subprocess.check_call(['patch', '-p1', '-s', '-i', os.path.abspath(a.patch)], cwd=d)
        else:
            p = os.path.join(d, a.file)
            s = open(p).read()
            if s.count(a.old) < 1:
                print('mutation site not found')
                sys.exit(3)
            s = s.replace(a.old, a.new, a.count)
            open(p, 'w').write(s)
        env = dict(os.environ, DD_REPO=d, SYMDD_EVIDENCE_DIR=os.path.join(d, '_evidence'))
        cmd = [os.path.join(HERE, 'bin/check'), a.pid, '--tier', a.tier]
        if a.only:
            cmd += ['--only', a.only]
        try:
            r = subprocess.run(cmd, env=env, capture_output=True, text=True, timeout=a.timeout)
        except subprocess.TimeoutExpired:
            subprocess.run("pkill -9 -f 'symdd[.]check " + a.pid + "'", shell=True)
            print('EXIT timeout')
            return
        lines = r.stdout.strip().splitlines()
        for l in lines[-14:]:
            print(l[:400])
        if r.returncode not in (0, 1):
            print(r.stderr[-1500:])
        print('EXIT', r.returncode)
        # restore evidence of the real tree is the caller's job
    finally:
        shutil.rmtree(d, ignore_errors=True)


if __name__ == '__main__':
    main()
