#!/usr/bin/env python3
"""Run the relevant quick checks against every seeded defect in seeded/ and
record the outcome in seeded/<name>/meta.json ("detection_now") and in
seeded/SUMMARY.md.  usage: tools/retest_seeds.py [name ...]"""
import json
import os
import subprocess
import sys

HERE = os.path.dirname(os.path.dirname(os.path.abspath(__file__)))
# which checks are expected to see a seed (default: the seed's own property)
ONLY = {}
# further checks run besides the seed's own property
EXTRA = {'C01': ['C06'], 'C02': ['C04'], 'C03b': ['C09'], 'C06b': ['C07'], 'C06c': ['C09'], 'C05c': ['C01'],
         'C18c': ['C14'], 'C09c': ['C06']}


def main():
    names = sys.argv[1:] or sorted(d for d in os.listdir(os.path.join(HERE, 'seeded'))
                                   if os.path.isdir(os.path.join(HERE, 'seeded', d)))
    rows = []
    for name in names:
        d = os.path.join(HERE, 'seeded', name)
        meta = json.load(open(os.path.join(d, 'meta.json')))
        pid = meta.get('property', name[:3])
        checks = [pid] + [c for c in EXTRA.get(name, []) if c != pid]
        det = {}
        for c in checks:
            cmd = [os.path.join(HERE, 'tools/mutate.py'), c, 'quick', '--patch',
                   os.path.join(d, 'patch.diff'), '--timeout', '900']
            if name in ONLY:
                cmd += ['--only', ONLY[name]]
            r = subprocess.run(cmd, capture_output=True, text=True)
            lines = r.stdout.strip().splitlines()
            code = [l for l in lines if l.startswith('EXIT')]
            viol = [l.strip() for l in lines if l.strip().startswith(c + '/')]
            det[c] = dict(exit=code[-1] if code else 'EXIT ?', first=viol[:1])
        meta['detection_now'] = det
        json.dump(meta, open(os.path.join(d, 'meta.json'), 'w'), indent=1)
        caught = [c for c, v in det.items() if v['exit'] == 'EXIT 1']
        rows.append((name, pid, ', '.join(f'{c}: {v["exit"]}' for c, v in det.items()),
                     (det[caught[0]]['first'] or [''])[0][:150] if caught else ''))
        print(rows[-1], flush=True)
    if sys.argv[1:]:
        return
    with open(os.path.join(HERE, 'seeded', 'SUMMARY.md'), 'w') as f:
        f.write('| seed | property | quick checks on the patched copy | first reproduced violation |\n|---|---|---|---|\n')
        for r in rows:
            f.write('| ' + ' | '.join(x.replace('|', '/') for x in r) + ' |\n')


if __name__ == '__main__':
    main()
