#!/bin/sh
# run every claimed check (tier $1, default quick) on the real tree; print exit codes
cd "$(dirname "$0")/.."
TIER=${1:-quick}
for p in $(python3 -c "import json; print(' '.join(c['property_id'] for c in json.load(open('MANIFEST.json'))['checks']))"); do
  S=$(date +%s)
  bin/check $p --tier $TIER > /tmp/runall_$p.txt 2>&1
  RC=$?
  E=$(date +%s)
  echo "$p exit=$RC wall=$((E-S))s $(grep -c '^KNOWN-FINDING' /tmp/runall_$p.txt) known $(tail -1 /tmp/runall_$p.txt | cut -c1-120)"
done
