#!/bin/sh
# run the thorough tier of the listed properties (default: all) one after the other, each under a cap;
# prints exit code and wall time per property (log: /tmp/runthor_<ID>.txt)
cd "$(dirname "$0")/.."
CAP=${CAP:-2700}
IDS=${*:-$(python3 -c "import json; print(' '.join(c['property_id'] for c in json.load(open('MANIFEST.json'))['checks']))")}
for p in $IDS; do
  S=$(date +%s)
  timeout $CAP bin/check $p --tier thorough > /tmp/runthor_$p.txt 2>&1
  RC=$?
  E=$(date +%s)
  echo "$p exit=$RC wall=$((E-S))s $(grep -c '^KNOWN-FINDING' /tmp/runthor_$p.txt) known $(tail -1 /tmp/runthor_$p.txt | cut -c1-140)"
done
